//! C14, thread clause: exhaustive exploration (loom) of all interleavings of the only
//! shared variable of pushr, the process-wide node-id counter, driven through the real
//! parser and interpreter. Usage: loomcheck <threads> <adds-per-thread> [max-preemptions]
#![allow(dead_code, unused_imports, unused_variables, unused_mut)]

#[path = "/repo/src/push/mod.rs"]
pub mod push;

use push::graph::Graph;
use push::instructions::InstructionSet;
use push::interpreter::PushInterpreter;
use push::parser::PushParser;
use push::state::PushState;
use std::sync::atomic::{AtomicUsize, Ordering};
use std::sync::Mutex;

static EXECUTIONS: AtomicUsize = AtomicUsize::new(0);
static OUTCOMES: Mutex<Vec<String>> = Mutex::new(Vec::new());

/// one thread's work: build a graph through the real parser and run loop, return (ids, renamed final state)
fn worker(adds: usize, api: bool) -> (Vec<usize>, String) {
    if api {
        let mut g = Graph::new();
        let ids: Vec<usize> = (0..adds).map(|k| g.add_node(k as i32)).collect();
        let mut states: Vec<(usize, i32)> = ids.iter().enumerate().map(|(k, id)| (k, g.get_state(id).unwrap())).collect();
        states.sort();
        return (ids, format!("{:?} nodes={}", states, g.node_size()));
    }
    let mut program = String::from("( GRAPH.ADD ");
    for k in 0..adds {
        program.push_str(&format!("{} GRAPH.NODE*ADD ", 10 + k));
    }
    program.push(')');
    let mut st = PushState::new();
    let mut iset = InstructionSet::new();
    iset.load();
    PushParser::parse_program(&mut st, &iset, &program);
    PushInterpreter::run(&mut st, &mut iset);
    // ids in creation order: the INTEGER stack, bottom first
    let n = st.int_stack.size();
    let ids: Vec<usize> = (0..n).rev().map(|k| *st.int_stack.get(k).unwrap() as usize).collect();
    // final state with ids renamed by creation order
    let g = st.graph_stack.get(0).unwrap();
    let mut renamed: Vec<(usize, i32)> = ids.iter().enumerate().map(|(k, id)| (k, g.get_state(id).unwrap_or(-999))).collect();
    renamed.sort();
    (ids, format!("{:?} nodes={} exec={} int_depth={}", renamed, g.node_size(), st.exec_stack.size(), n))
}

fn main() {
    let args: Vec<String> = std::env::args().collect();
    let threads: usize = args.get(1).and_then(|s| s.parse().ok()).unwrap_or(2);
    let adds: usize = args.get(2).and_then(|s| s.parse().ok()).unwrap_or(2);
    let bound: Option<usize> = args.get(3).and_then(|s| s.parse().ok()); // "none" = unbounded
    let api = args.get(4).map(|s| s == "api").unwrap_or(false);
    let mut builder = loom::model::Builder::new();
    builder.preemption_bound = bound;
    let t0 = std::time::Instant::now();
    let result = std::panic::catch_unwind(move || {
        builder.check(move || {
            EXECUTIONS.fetch_add(1, Ordering::Relaxed);
            let handles: Vec<_> = (0..threads).map(|_| loom::thread::spawn(move || worker(adds, api))).collect();
            let results: Vec<(Vec<usize>, String)> = handles.into_iter().map(|h| h.join().unwrap()).collect();
            // ids are never handed out twice, whatever the interleaving
            let mut all: Vec<usize> = results.iter().flat_map(|r| r.0.iter().copied()).collect();
            let total = all.len();
            all.sort();
            all.dedup();
            assert_eq!(all.len(), total, "node id handed out twice: {:?}", results.iter().map(|r| r.0.clone()).collect::<Vec<_>>());
            assert_eq!(total, threads * adds, "missing ids");
            // every thread's final state, ids renamed by creation order, equals the sequential one
            let first = &results[0].1;
            for r in &results {
                assert_eq!(&r.1, first, "a thread's final state differs from another thread's");
            }
            let mut pattern: Vec<Vec<usize>> = results.iter().map(|r| r.0.clone()).collect();
            let base = *all.first().unwrap();
            for p in pattern.iter_mut() {
                for x in p.iter_mut() {
                    *x -= base;
                }
            }
            let mut o = OUTCOMES.lock().unwrap();
            let key = format!("{:?}", pattern);
            if !o.contains(&key) {
                o.push(key);
            }
        });
    });
    let execs = EXECUTIONS.load(Ordering::Relaxed);
    let outcomes = OUTCOMES.lock().map(|o| o.clone()).unwrap_or_default();
    match result {
        Ok(()) => {
            println!(
                "LOOM ok threads={} adds={} bound={:?} mode={} executions={} distinct_id_assignments={} wall_s={:.2} sample={}",
                threads,
                adds,
                bound,
                if api { "api" } else { "interpreter" },
                execs,
                outcomes.len(),
                t0.elapsed().as_secs_f64(),
                outcomes.first().cloned().unwrap_or_default()
            );
        }
        Err(e) => {
            let msg = e.downcast_ref::<String>().cloned().or_else(|| e.downcast_ref::<&str>().map(|s| s.to_string())).unwrap_or_else(|| "panic".into());
            println!("LOOM violation threads={} adds={} bound={:?} executions={} message={}", threads, adds, bound, execs, msg.replace('\n', " "));
            std::process::exit(1);
        }
    }
}
