//! C08 — CODE list surgery is coherent with depth-first point indexing.
//! All trees up to S points over a small atom alphabet; every CODE.* surgery
//! instruction by name through `step`, judged by the reference tree functions and
//! by the metamorphic equations of the property (which need no reference value);
//! the Item:: API is checked directly on the same trees.

use crate::core::{guarded, panic_class, step_once, with_instr, Ctx, Outcome, Real, Verdict};
use crate::model::{item_of, tree_of, Tree, M};
use crate::refmodel;
use crate::treeops::*;
use pushr::push::item::Item;

fn atoms6() -> Vec<Tree> {
    vec![Tree::I(1), Tree::I(2), Tree::I(11), Tree::F(1.5), Tree::name("A"), Tree::ins("NOOP")]
}
fn atoms3() -> Vec<Tree> {
    vec![Tree::I(1), Tree::I(11), Tree::name("A")]
}

fn indices(points: usize) -> Vec<i32> {
    let s = points as i32;
    let mut v: Vec<i32> = (-2 * s..=2 * s).collect();
    v.push(i32::MIN);
    v.push(i32::MAX);
    v
}

fn run_step(ctx: &mut Ctx, real: &mut Real, name: &str, m0: &M, extra: impl FnOnce(&M, &Outcome, &mut Real) -> Option<(String, String)>) {
    let id = match ctx.take() {
        Some(id) => id,
        None => return,
    };
    ctx.transitions += 1;
    ctx.states += 1;
    let out = step_once(real, &with_instr(m0, name));
    let mut verdict = refmodel::judge(name, m0, &out);
    if matches!(verdict, Verdict::Pass) {
        if let Some((class, detail)) = extra(m0, &out, real) {
            verdict = match crate::known::asis(name, m0, &out) {
                Some(k) => Verdict::Known(k),
                None => Verdict::fail(name, &class, detail),
            };
        }
    }
    let okey = format!("{}|{}", name, out.key());
    if let Outcome::Ok(g) = &out {
        if !g.diff(m0).is_empty() {
            ctx.nontrivial_mark(&okey);
        }
    }
    ctx.record(id, &okey, verdict, || format!("{} state {{{}}}", name, m0.key()));
}

fn none(_: &M, _: &Outcome, _: &mut Real) -> Option<(String, String)> {
    None
}

/// atoms of the result must come from the operands (nothing invented), and for
/// the instructions that document no removal, none may be lost
fn atoms_conserved(name: &str, m0: &M, out: &Outcome) -> Option<(String, String)> {
    let got = match out {
        Outcome::Ok(g) => g,
        _ => return None,
    };
    let multiset = |ts: &[Tree]| -> Vec<String> {
        let mut v: Vec<String> = ts.iter().flat_map(atoms).collect();
        v.sort();
        v
    };
    match name {
        // result = all atoms of both operands
        "CODE.CONS" | "CODE.LIST" => {
            let want = multiset(&m0.c[0..2]);
            let have = multiset(&got.c[0..1]);
            if want != have {
                return Some(("atoms-lost".into(), format!("result atoms {:?} but operands hold {:?}", have, want)));
            }
        }
        _ => {}
    }
    None
}

pub fn unary(ctx: &mut Ctx) {
    let mut real = Real::new();
    let s = if ctx.tier_thorough { 6 } else { 4 };
    let trees = trees_up_to(s, &atoms6());
    ctx.extra.push(("trees".into(), crate::core::J::Int(trees.len() as i64)));
    for t in &trees {
        let mut base = M::default();
        base.c = vec![t.clone(), Tree::I(77)];
        for name in ["CODE.SIZE", "CODE.CAR", "CODE.CDR", "CODE.LENGTH", "CODE.NULL", "CODE.ATOM"] {
            run_step(ctx, &mut real, name, &base, none);
        }
        for i in indices(t.points()) {
            let mut m0 = base.clone();
            m0.i = vec![i, 55];
            // EXTRACT: the reference gives the i-th point; in addition SIZE/EXTRACT coherence:
            // extracting every index in [0, points) enumerates exactly the reference's points
            run_step(ctx, &mut real, "CODE.EXTRACT", &m0, none);
            run_step(ctx, &mut real, "CODE.NTH", &m0, none);
        }
    }
}

/// floats that a tolerant or textual comparison would merge (one ulp apart; equal to three decimals)
fn atoms_near() -> Vec<Tree> {
    let n = crate::alpha::near_floats();
    vec![Tree::F(n[0]), Tree::F(n[1]), Tree::F(n[2]), Tree::F(n[3]), Tree::I(1)]
}

pub fn binary(ctx: &mut Ctx) {
    let near = ctx.family == "near";
    let mut real = Real::new();
    let (st, su) = if near { (3, 2) } else if ctx.tier_thorough { (5, 3) } else { (4, 3) };
    let atoms = if near { atoms_near() } else { atoms3() };
    let ts = trees_up_to(st, &atoms);
    let us = trees_up_to(su, &atoms);
    ctx.extra.push(("pairs".into(), crate::core::J::Int((ts.len() * us.len()) as i64)));
    for t in &ts {
        for u in &us {
            // top = t, second = u
            let mut base = M::default();
            base.c = vec![t.clone(), u.clone(), Tree::I(77)];
            for name in ["CODE.POSITION", "CODE.CONTAINER", "CODE.CONTAINS", "CODE.MEMBER", "CODE.=", "CODE.CONS", "CODE.LIST"] {
                run_step(ctx, &mut real, name, &base, |m0, out, real| {
                    if let Some(e) = atoms_conserved(name, m0, out) {
                        return Some(e);
                    }
                    // POSITION = p >= 0  =>  EXTRACT(p) returns the searched item; -1 <=> no structural occurrence
                    if name == "CODE.POSITION" {
                        if let Outcome::Ok(g) = out {
                            let p = g.i[0];
                            let occurs = contains(&m0.c[0], &m0.c[1]);
                            if (p == -1) != !occurs {
                                return Some(("position-occurrence".into(), format!("position {} but occurs = {}", p, occurs)));
                            }
                            if p >= 0 {
                                let mut m1 = m0.clone();
                                m1.i = vec![p];
                                if let Outcome::Ok(g2) = step_once(real, &with_instr(&m1, "CODE.EXTRACT")) {
                                    if g2.c[0] != m0.c[1] {
                                        return Some(("position-extract".into(), format!("POSITION {} but EXTRACT there yields {}", p, g2.c[0].key())));
                                    }
                                }
                            }
                        }
                    }
                    None
                });
            }
            // DISCREPANCY: symmetric, zero for identical items (metamorphic, two executions)
            run_step(ctx, &mut real, "CODE.DISCREPANCY", &base, |m0, out, real| {
                if let Outcome::Ok(g) = out {
                    let mut sw = m0.clone();
                    sw.c.swap(0, 1);
                    match step_once(real, &with_instr(&sw, "CODE.DISCREPANCY")) {
                        Outcome::Ok(g2) => {
                            if g2.i[0] != g.i[0] {
                                return Some(("discrepancy-asymmetric".into(), format!("d(a,b) = {} but d(b,a) = {}", g.i[0], g2.i[0])));
                            }
                        }
                        Outcome::Panic(p) => return Some((panic_class(&p), p)),
                    }
                }
                None
            });
            // INSERT at every index, then EXTRACT at the same index
            for i in indices(t.points()) {
                let mut m0 = base.clone();
                m0.i = vec![i, 55];
                run_step(ctx, &mut real, "CODE.INSERT", &m0, |m0, out, real| {
                    if let Outcome::Ok(g) = out {
                        // where did the implementation put the result? top of CODE (in place or pushed)
                        let n = m0.c[0].points();
                        let changed = g.c[0] != m0.c[0];
                        if changed {
                            // a following EXTRACT at i yields the inserted item ...
                            let mut m1 = g.clone();
                            m1.e.clear();
                            m1.i = vec![i];
                            if let Outcome::Ok(g2) = step_once(real, &with_instr(&m1, "CODE.EXTRACT")) {
                                // EXTRACT normalises with the size of the *new* item; only compare when the index denotes the same point
                                let idx_old = norm_readings(i, n);
                                let idx_new = norm_readings(i, g.c[0].points());
                                if idx_old == idx_new && g2.c[0] != m0.c[1] {
                                    return Some(("insert-extract".into(), format!("after INSERT at {} EXTRACT yields {} not the inserted {}", i, g2.c[0].key(), m0.c[1].key())));
                                }
                            }
                            // ... and nothing outside the replaced subtree changed
                            let ok = norm_readings(i, n).iter().any(|idx| replace_point(&m0.c[0], *idx, &m0.c[1]) == g.c[0]);
                            if !ok {
                                return Some(("insert-outside".into(), format!("result {} is not the operand with one point replaced", g.c[0].key())));
                            }
                        }
                    }
                    None
                });
            }
            // SUBST: pattern below (third), substitute = u, target = t
            for w in us.iter().take(12) {
                let mut m0 = M::default();
                m0.c = vec![t.clone(), u.clone(), w.clone(), Tree::I(77)];
                run_step(ctx, &mut real, "CODE.SUBST", &m0, |m0, out, _| {
                    if let Outcome::Ok(g) = out {
                        let pat = &m0.c[2];
                        if !contains(&m0.c[0], pat) && g.c[0] != m0.c[0] {
                            return Some(("subst-spurious".into(), "target changed although the pattern does not occur".into()));
                        }
                    }
                    None
                });
            }
        }
    }
}

/// the Item:: API directly
pub fn api(ctx: &mut Ctx) {
    let s = if ctx.tier_thorough { 5 } else { 4 };
    let ts = trees_up_to(s, &atoms3());
    let us = trees_up_to(2, &atoms3());
    for t in &ts {
        let id = match ctx.take() {
            Some(id) => id,
            None => continue,
        };
        ctx.transitions += 1;
        ctx.states += 1;
        let it = item_of(t);
        let n = t.points();
        let r = guarded(|| {
            let mut problems: Vec<String> = vec![];
            if Item::size(&it) != n {
                problems.push(format!("size {} expected {}", Item::size(&it), n));
            }
            for i in 0..n + 2 {
                let got = Item::traverse(&it, i).ok().map(|x| tree_of(&x));
                let want = nth_point(t, i);
                if got != want {
                    problems.push(format!("traverse({}) = {:?} expected {:?}", i, got.map(|g| g.key()), want.map(|g| g.key())));
                }
            }
            for u in &us {
                let iu = item_of(u);
                let got = Item::contains(&it, &iu, 0).ok();
                let want = position(t, u);
                if got != want {
                    problems.push(format!("contains({}) = {:?} expected {:?}", u.key(), got, want));
                }
                let gotc = Item::container(&it, &iu).ok().map(|x| tree_of(&x));
                let wantc = container(t, u);
                if gotc != wantc {
                    problems.push(format!("container({}) = {:?} expected {:?}", u.key(), gotc.map(|g| g.key()), wantc.map(|g| g.key())));
                }
                if Item::equals(&it, &iu) != (t == u) {
                    problems.push(format!("equals({}) = {}", u.key(), Item::equals(&it, &iu)));
                }
                // insert at every in-range index >= 1
                for i in 1..n {
                    let mut c = it.clone();
                    let _ = Item::insert(&mut c, &iu, i);
                    let want = replace_point(t, i, u);
                    if tree_of(&c) != want {
                        problems.push(format!("insert({}, {}) = {} expected {}", u.key(), i, tree_of(&c).key(), want.key()));
                    }
                }
                // substitute u by ( )
                let mut c = it.clone();
                let whole = Item::substitute(&mut c, &iu, &Item::empty_list());
                let want = subst(t, u, &Tree::L(vec![]));
                let got = if whole { Tree::L(vec![]) } else { tree_of(&c) };
                if got != want {
                    problems.push(format!("substitute({}) = {} expected {}", u.key(), got.key(), want.key()));
                }
            }
            problems
        });
        let (okey, verdict) = match r {
            Err(p) => (panic_class(&p), Verdict::fail("Item", &panic_class(&p), p)),
            Ok(problems) => {
                if problems.is_empty() {
                    (format!("ok {}", t.key()), Verdict::Pass)
                } else {
                    (format!("bad {}", t.key()), Verdict::fail("Item", &format!("api:{}", problems[0].split('(').next().unwrap_or("")), problems.join("; ")))
                }
            }
        };
        ctx.nontrivial_mark(&okey);
        ctx.record(id, &okey, verdict, || format!("Item API on {}", t.key()));
    }
}

fn atoms2() -> Vec<Tree> {
    vec![Tree::I(1), Tree::name("A")]
}

/// deeper trees over a 2-atom alphabet: index arithmetic after (several) nested lists
pub fn deep(ctx: &mut Ctx) {
    let mut real = Real::new();
    let s = if ctx.tier_thorough { 8 } else { 6 };
    let ts = trees_up_to(s, &atoms2());
    let us = trees_up_to(3, &atoms2());
    ctx.extra.push(("deep_trees".into(), crate::core::J::Int(ts.len() as i64)));
    for t in &ts {
        if t.points() < 5 {
            continue; // covered by the other families
        }
        for u in &us {
            let mut base = M::default();
            base.c = vec![t.clone(), u.clone()];
            for name in ["CODE.POSITION", "CODE.CONTAINER", "CODE.CONTAINS", "CODE.MEMBER"] {
                run_step(ctx, &mut real, name, &base, none);
            }
        }
        // EXTRACT / INSERT at every in-range index and a few outside
        let n = t.points() as i32;
        for i in (-1..=n + 1).chain([i32::MIN, i32::MAX]) {
            let mut m0 = M::default();
            m0.c = vec![t.clone(), Tree::I(77)];
            m0.i = vec![i];
            run_step(ctx, &mut real, "CODE.EXTRACT", &m0, none);
            run_step(ctx, &mut real, "CODE.INSERT", &m0, none);
        }
        let mut m0 = M::default();
        m0.c = vec![t.clone()];
        run_step(ctx, &mut real, "CODE.SIZE", &m0, none);
    }
}

/// a ladder of large, structured trees (9..40 points, nesting up to 6): not exhaustive in the large, but
/// every index, every sub-point as a pattern, and every instruction on each of them
fn big_trees() -> Vec<Tree> {
    let a = |k: i32| Tree::I(k);
    let l = |v: Vec<Tree>| Tree::L(v);
    let mut out = vec![];
    // chains and combs
    let mut chain = a(1);
    for _ in 0..8 {
        chain = l(vec![chain]);
    }
    out.push(chain);
    let mut comb = l(vec![a(9)]);
    for k in (1..9).rev() {
        comb = l(vec![a(k), comb]);
    }
    out.push(comb);
    let mut lcomb = l(vec![a(9)]);
    for k in (1..9).rev() {
        lcomb = l(vec![lcomb, a(k)]);
    }
    out.push(lcomb);
    // wide and flat
    out.push(l((1..=12).map(a).collect()));
    out.push(l((1..=33).map(|k| if k % 4 == 0 { l(vec![a(k)]) } else { a(k) }).collect()));
    // nested lists first, atoms after; repeated subtrees; empty lists inside
    out.push(l(vec![l(vec![a(1), l(vec![a(2), a(3)])]), l(vec![l(vec![]), a(4)]), a(5), l(vec![a(2), a(3)]), a(1), a(11)]));
    out.push(l(vec![l(vec![l(vec![l(vec![a(1), a(2)]), a(3)]), a(4)]), l(vec![a(1), a(2)]), l(vec![l(vec![a(1), a(2)]), a(3)]), Tree::name("A"), Tree::F(1.5)]));
    out.push(l(vec![a(1), l(vec![a(1), l(vec![a(1), l(vec![a(1), l(vec![a(1), l(vec![a(1)])])])])]), a(1)]));
    out.push(l(vec![l(vec![]), l(vec![l(vec![])]), l(vec![l(vec![l(vec![])])]), l(vec![]), a(7), l(vec![])]));
    // a balanced tree of depth 4
    let leaf = |k: i32| l(vec![a(k), a(k + 1)]);
    out.push(l(vec![l(vec![leaf(1), leaf(3)]), l(vec![leaf(5), leaf(7)]), l(vec![leaf(1), leaf(3)])]));
    // 33 elements with two-level sublists, a 20-deep nest, 101 equal atoms
    out.extend(crate::alpha::Alpha::large().codes);
    // vector literals inside code: two long float vectors that differ in one middle element / in length
    let fv = |n: usize, mid: f32| Tree::FV((0..n).map(|k| if k == n / 2 { mid } else { k as f32 + 0.5 }).collect());
    out.push(l(vec![fv(40, 1.0), l(vec![fv(40, 2.0), a(1)]), fv(41, 1.0), Tree::IV((0..40).collect()), Tree::IV((0..40).map(|k| if k == 20 { -1 } else { k }).collect())]));
    out
}

pub fn big(ctx: &mut Ctx) {
    let mut real = Real::new();
    let trees = big_trees();
    for t in &trees {
        let n = t.points();
        let mut m0 = M::default();
        m0.c = vec![t.clone(), Tree::I(77)];
        for name in ["CODE.SIZE", "CODE.CAR", "CODE.CDR", "CODE.LENGTH", "CODE.NULL", "CODE.ATOM"] {
            run_step(ctx, &mut real, name, &m0, none);
        }
        let mut idxs: Vec<i32> = (-(n as i32) - 2..=2 * n as i32 + 1).collect();
        idxs.extend([i32::MIN, i32::MAX]);
        for i in idxs {
            let mut m1 = m0.clone();
            m1.i = vec![i];
            run_step(ctx, &mut real, "CODE.EXTRACT", &m1, none);
            run_step(ctx, &mut real, "CODE.NTH", &m1, none);
            let mut m2 = M::default();
            m2.c = vec![t.clone(), Tree::L(vec![Tree::I(99)])];
            m2.i = vec![i];
            run_step(ctx, &mut real, "CODE.INSERT", &m2, none);
        }
        // every sub-point as the searched / contained / substituted item, plus one that does not occur
        let mut pats: Vec<Tree> = (0..n).filter_map(|k| nth_point(t, k)).collect();
        pats.push(Tree::L(vec![Tree::I(-5)]));
        let mut seen = std::collections::HashSet::new();
        pats.retain(|p| seen.insert(p.key()));
        for u in &pats {
            let mut m1 = M::default();
            m1.c = vec![t.clone(), u.clone()];
            for name in ["CODE.POSITION", "CODE.CONTAINER", "CODE.CONTAINS", "CODE.MEMBER", "CODE.=", "CODE.DISCREPANCY", "CODE.CONS", "CODE.LIST"] {
                run_step(ctx, &mut real, name, &m1, |m0, out, _| atoms_conserved(name, m0, out));
            }
            for sub in [Tree::I(0), Tree::L(vec![Tree::I(0), Tree::L(vec![])])] {
                let mut m2 = M::default();
                m2.c = vec![t.clone(), sub, u.clone()];
                run_step(ctx, &mut real, "CODE.SUBST", &m2, none);
            }
        }
    }
}

/// pairs of DIFFERENT items that agree everywhere except in one detail far from both ends (the middle element
/// of a long vector or list, the leaf of a deep nest, one element more): every two-operand CODE instruction,
/// both operand orders, judged by the reference
pub fn twins(ctx: &mut Ctx) {
    let mut real = Real::new();
    let fv = |n: usize, mid: f32| Tree::FV((0..n).map(|k| if k == n / 2 { mid } else { k as f32 + 0.5 }).collect());
    let iv = |n: usize, mid: i32| Tree::IV((0..n as i32).map(|k| if k == n as i32 / 2 { mid } else { k }).collect());
    let bv = |n: usize, mid: bool| Tree::BV((0..n).map(|k| if k == n / 2 { mid } else { k % 3 == 0 }).collect());
    let wide = |n: usize, mid: i32| Tree::L((0..n as i32).map(|k| if k == n as i32 / 2 { Tree::I(mid) } else { Tree::I(k) }).collect());
    let nest = |d: usize, leaf: i32| {
        let mut t = Tree::L(vec![Tree::I(leaf)]);
        for k in 0..d {
            t = Tree::L(vec![Tree::I(k as i32), t]);
        }
        t
    };
    let mut pairs: Vec<(Tree, Tree)> = vec![];
    for n in [33usize, 40, 70, 101] {
        pairs.push((fv(n, 1.0), fv(n, 2.0)));
        pairs.push((fv(n, 1.0), fv(n + 1, 1.0)));
        pairs.push((iv(n, -1), iv(n, -2)));
        pairs.push((bv(n, true), bv(n, false)));
        pairs.push((wide(n, -1), wide(n, -2)));
        pairs.push((Tree::L(vec![Tree::I(1), fv(n, 1.0)]), Tree::L(vec![Tree::I(1), fv(n, 2.0)])));
    }
    for d in [12usize, 20, 30] {
        pairs.push((nest(d, 1), nest(d, 2)));
    }
    for (x, y) in &pairs {
        for (a, b) in [(x, y), (y, x), (x, x)] {
            let mut base = M::default();
            base.c = vec![a.clone(), b.clone(), Tree::I(77)];
            for name in ["CODE.=", "CODE.DISCREPANCY", "CODE.CONTAINS", "CODE.MEMBER", "CODE.POSITION", "CODE.CONTAINER"] {
                run_step(ctx, &mut real, name, &base, none);
            }
            // EXEC.= compares the same way
            let mut m2 = M::default();
            m2.e = vec![a.clone(), b.clone()];
            run_step(ctx, &mut real, "EXEC.=", &m2, none);
            // the pattern occurs inside a list / does not occur (its twin does)
            let mut m3 = M::default();
            m3.c = vec![Tree::L(vec![Tree::I(5), b.clone(), Tree::I(6)]), a.clone()];
            for name in ["CODE.CONTAINS", "CODE.MEMBER", "CODE.POSITION", "CODE.CONTAINER"] {
                run_step(ctx, &mut real, name, &m3, none);
            }
            let mut m4 = M::default();
            m4.c = vec![Tree::L(vec![Tree::I(5), b.clone(), Tree::I(6)]), Tree::I(0), a.clone()];
            run_step(ctx, &mut real, "CODE.SUBST", &m4, none);
        }
    }
}

pub fn run(ctx: &mut Ctx) {
    match ctx.family.as_str() {
        "twins" => twins(ctx),
        "big" => big(ctx),
        "deep" => deep(ctx),
        "unary" => unary(ctx),
        "binary" | "near" => binary(ctx),
        "api" => api(ctx),
        f => panic!("unknown family {}", f),
    }
}
