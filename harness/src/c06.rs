//! C06 — control flow runs code in the documented order, the documented number of times.
//! (step) one step of every combinator for all EXEC/CODE stack contents of depth 0..4;
//! (loops) whole executions of EXEC.LOOP / CODE.LOOP / INTVECTOR.LOOP programs with a
//! harness-registered PROBE instruction, compared with a *structured* reference that
//! encodes the documented whole-run meaning (body n times, CURRENT = 0..n-1, clean-up).

use crate::core::{guarded, panic_class, step_once, with_instr, Ctx, Outcome, Real, Verdict};
use crate::model::{build, observe, Tree, M};
use crate::refmodel::{self, probe_of, ref_step, ProbeRec};
use pushr::push::instructions::{Instruction, InstructionCache};
use pushr::push::interpreter::PushInterpreter;
use pushr::push::state::PushState;
use std::cell::RefCell;

thread_local! {
    static PROBE_LOG: RefCell<Vec<ProbeRec>> = RefCell::new(Vec::new());
}

fn probe(st: &mut PushState, _c: &InstructionCache) {
    let cur = st.index_stack.get(0).map(|x| x.current as i64).unwrap_or(-1);
    let top = st.int_stack.get(0).copied();
    let depth = st.index_stack.size();
    PROBE_LOG.with(|l| l.borrow_mut().push((cur, top, depth)));
}

pub fn real_with_probe() -> Real {
    let mut real = Real::new();
    real.iset.add("PROBE".to_string(), Instruction::new(probe));
    real.icache = real.iset.cache();
    real
}

/// run `m0` on the real interpreter by single steps until EXEC is empty (or the horizon)
pub fn run_real(real: &mut Real, m0: &M, horizon: usize) -> Result<(M, Vec<ProbeRec>, usize, bool), String> {
    PROBE_LOG.with(|l| l.borrow_mut().clear());
    let Real { iset, icache } = real;
    let r = guarded(|| {
        let mut st = build(m0);
        pushr::push::graph::verif_set_node_counter(refmodel::next_node_id());
        pushr::push::verif::install_clock(0);
        pushr::push::verif::install_script(vec![], 100_000);
        let mut steps = 0;
        let mut done = false;
        while steps < horizon {
            if PushInterpreter::step(&mut st, iset, icache) {
                done = true;
                break;
            }
            steps += 1;
        }
        (observe(&st), steps, done)
    });
    pushr::push::verif::clear_script();
    pushr::push::verif::clear_clock();
    let log = PROBE_LOG.with(|l| l.borrow().clone());
    r.map(|(m, steps, done)| (m, log, steps, done))
}

// ---------------------------------------------------------------------------
// (a) single steps

fn distinct_code(k: usize) -> Tree {
    match k % 4 {
        0 => Tree::I(100 + k as i32),
        1 => Tree::L(vec![Tree::I(100 + k as i32), Tree::name("A")]),
        2 => Tree::ins("NOOP"),
        _ => Tree::L(vec![]),
    }
}

/// state shared with the NAME machinery: env 1 makes the top EXEC and CODE items bare names that are BOUND
/// (a control instruction moves its operands as they are: it neither looks a name up nor consumes the quote
/// flag), env 2 additionally has NAME.QUOTE pending
fn shared_state_env(m: &mut M, env: usize) {
    if env == 0 {
        return;
    }
    m.bindings.insert("BOUNDX".into(), Tree::L(vec![Tree::I(1), Tree::I(2)]));
    m.bindings.insert("BOUNDY".into(), Tree::I(7));
    if !m.e.is_empty() {
        m.e[0] = Tree::name("BOUNDX");
    }
    if !m.c.is_empty() {
        m.c[0] = Tree::name("BOUNDY");
    }
    m.quote = env == 2;
}

pub fn step_family(ctx: &mut Ctx) {
    let mut real = Real::new();
    let names = ["EXEC.IF", "CODE.IF", "EXEC.K", "EXEC.S", "EXEC.Y", "CODE.DO", "CODE.DO*", "CODE.QUOTE", "EXEC.DUP", "EXEC.POP", "EXEC.SWAP", "EXEC.ROT", "EXEC.FLUSH"];
    // one unfolding step of each loop instruction: while the body runs, the item directly beneath it on
    // EXEC is the loop's own continuation, in every iteration including the last (a body may pop or
    // duplicate it: the EXEC.POP "break" idiom), and the element / index is exposed as documented
    let loop_names = ["EXEC.LOOP", "CODE.LOOP", "INTVECTOR.LOOP", "INDEX.INCREASE", "INDEX.CURRENT", "INDEX.DESTINATION", "INDEX.DEFINE", "INDEX.POP"];
    let maxd = 5;
    for ed in 0..=maxd.min(3) {
        for cd in 0..=2usize {
            for x in [vec![], vec![(0usize, 0usize)], vec![(0, 2)], vec![(1, 2), (5, 9)], vec![(2, 2), (0, 1)], vec![(5, 3)], vec![(3, 0), (0, 2)], vec![(usize::MAX, 0)], vec![(2, 2), (0, 0)], vec![(1, 2), (3, 3), (0, 0)], vec![(3, 3), (5, 3), (1, 1)]] {
                for iv in [vec![], vec![vec![]], vec![vec![7]], vec![vec![7, 8], vec![9]]] {
                    let mut m0 = M::default();
                    m0.e = (0..ed).map(distinct_code).collect();
                    m0.c = (0..cd).map(|k| distinct_code(k + 10)).collect();
                    m0.x = x.clone();
                    m0.iv = iv.clone();
                    m0.i = vec![3];
                    for env in 0..3 {
                    let mut m0 = m0.clone();
                    shared_state_env(&mut m0, env);
                    for name in loop_names.iter() {
                        let id = match ctx.take() {
                            Some(id) => id,
                            None => continue,
                        };
                        ctx.transitions += 1;
                        ctx.states += 1;
                        let out = step_once(&mut real, &with_instr(&m0, name));
                        let v = refmodel::judge(name, &m0, &out);
                        let okey = format!("{}|{}", name, out.key());
                        if let Outcome::Ok(g) = &out {
                            if !g.diff(&m0).is_empty() {
                                ctx.nontrivial_mark(&okey);
                            }
                        }
                        ctx.record(id, &okey, v, || format!("{} state {{{}}}", name, m0.key()));
                    }
                    }
                }
            }
        }
    }
    for ed in 0..=maxd {
        for cd in 0..=maxd {
            for b in [vec![], vec![true], vec![false], vec![true, false]] {
                let mut m0 = M::default();
                m0.e = (0..ed).map(distinct_code).collect();
                m0.c = (0..cd).map(|k| distinct_code(k + 10)).collect();
                m0.b = b.clone();
                for env in 0..3 {
                let mut m0 = m0.clone();
                shared_state_env(&mut m0, env);
                for name in names.iter() {
                    let id = match ctx.take() {
                        Some(id) => id,
                        None => continue,
                    };
                    ctx.transitions += 1;
                    ctx.states += 1;
                    let out = step_once(&mut real, &with_instr(&m0, name));
                    let v = refmodel::judge(name, &m0, &out);
                    let okey = format!("{}|{}", name, out.key());
                    if let Outcome::Ok(g) = &out {
                        if !g.diff(&m0).is_empty() {
                            ctx.nontrivial_mark(&okey);
                        }
                    }
                    ctx.record(id, &okey, v, || format!("{} state {{{}}}", name, m0.key()));
                }
                }
                // list unpacking: a list on top of EXEC is replaced by its elements, first element on top;
                // literal dispatch: every kind of literal goes to the stack of its type, an unknown
                // instruction name does nothing, a name goes to NAME (unbound) -- the interpreter step itself
                for list in [
                    Tree::L(vec![]),
                    Tree::L(vec![Tree::I(1)]),
                    Tree::L(vec![Tree::I(1), Tree::L(vec![Tree::I(2), Tree::I(3)]), Tree::name("A")]),
                    Tree::B(true),
                    Tree::I(i32::MIN),
                    Tree::F(f32::NAN),
                    Tree::Idx(1, 3),
                    Tree::BV(vec![true, false]),
                    Tree::IV(vec![]),
                    Tree::FV(vec![1.5]),
                    Tree::Graph(crate::alpha::graph_small()),
                    Tree::name("UNBOUND"),
                    Tree::ins("NO.SUCH.INSTRUCTION"),
                    // long lists (chunked / lazy unpacking would leave a packed tail behind)
                    Tree::L((0..16).map(Tree::I).collect()),
                    Tree::L((0..17).map(Tree::I).collect()),
                    Tree::L((0..33).map(|k| if k % 5 == 0 { Tree::L(vec![Tree::I(k)]) } else { Tree::I(k) }).collect()),
                    Tree::L((0..100).map(Tree::I).collect()),
                ] {
                    let id = match ctx.take() {
                        Some(id) => id,
                        None => continue,
                    };
                    ctx.transitions += 1;
                    ctx.states += 1;
                    let mut before = m0.clone();
                    before.e.insert(0, list.clone());
                    let out = step_once(&mut real, &before);
                    let mut exp = before.clone();
                    let mut log = vec![];
                    ref_step(&mut exp, &mut log, false);
                    let v = match &out {
                        Outcome::Ok(g) if g.diff(&exp).is_empty() => Verdict::Pass,
                        Outcome::Ok(g) => Verdict::fail("list-unpack", "mismatch", format!("documented {{{}}} observed {{{}}}", exp.key(), g.key())),
                        Outcome::Panic(p) => Verdict::fail("list-unpack", &panic_class(p), p.clone()),
                    };
                    let okey = format!("unpack|{}", out.key());
                    ctx.nontrivial_mark(&okey);
                    ctx.record(id, &okey, v, || format!("unpack {} on {{{}}}", list.key(), m0.key()));
                }
            }
        }
    }
}

// ---------------------------------------------------------------------------
// (b) loops

/// Documented whole-run meaning, structurally: executes `m.e` to exhaustion. The three
/// loop instructions are *not* executed by their re-arming encoding but by what the
/// documentation says they mean: the body runs to completion destination-many times
/// (once per element) with the index (element) exposed, then index / vector / loop code
/// are gone. Everything else is the documented single step.
fn run_struct(m: &mut M, log: &mut Vec<ProbeRec>, fuel: &mut usize) {
    while !m.e.is_empty() {
        if *fuel == 0 {
            return;
        }
        *fuel -= 1;
        let is_loop = matches!(&m.e[0], Tree::Ins(n) if n == "EXEC.LOOP" || n == "CODE.LOOP" || n == "INTVECTOR.LOOP");
        if !is_loop {
            ref_step(m, log, false);
            continue;
        }
        let name = match m.e.remove(0) {
            Tree::Ins(n) => n,
            _ => unreachable!(),
        };
        if name == "INTVECTOR.LOOP" {
            if m.iv.is_empty() || m.e.is_empty() {
                continue;
            }
            let v = m.iv.remove(0);
            let body = m.e.remove(0);
            let saved = std::mem::take(&mut m.e);
            for el in v {
                m.i.insert(0, el);
                m.e = vec![body.clone()];
                run_struct(m, log, fuel);
            }
            m.e = saved;
            continue;
        }
        // EXEC.LOOP / CODE.LOOP
        let body = if name == "EXEC.LOOP" {
            if m.e.is_empty() || m.x.is_empty() {
                continue;
            }
            m.e.remove(0)
        } else {
            if m.c.is_empty() || m.x.is_empty() {
                continue;
            }
            m.c.remove(0)
        };
        let saved = std::mem::take(&mut m.e);
        let depth = m.x.len();
        loop {
            // the loop's own index is the one at the depth it had when the loop started
            if m.x.len() < depth || *fuel == 0 {
                break;
            }
            let pos = m.x.len() - depth;
            let (cur, dest) = m.x[pos];
            if cur >= dest {
                m.x.remove(pos);
                break;
            }
            m.e = vec![body.clone()];
            run_struct(m, log, fuel);
            if m.x.len() < depth {
                break;
            }
            let pos = m.x.len() - depth;
            m.x[pos].0 += 1;
        }
        m.e = saved;
    }
}

fn bodies(thorough: bool) -> Vec<Tree> {
    let p = || Tree::ins("PROBE");
    let mut v = vec![
        p(),
        Tree::L(vec![p()]),
        Tree::L(vec![p(), p()]),
        Tree::L(vec![Tree::ins("INDEX.CURRENT"), p(), Tree::ins("INTEGER.POP")]),
        Tree::L(vec![Tree::I(7), p()]),
        Tree::L(vec![p(), Tree::ins("INTEGER.POP")]),
        Tree::L(vec![Tree::ins("INDEX.CURRENT"), Tree::ins("INTEGER.+"), p()]),
        Tree::L(vec![]),
        Tree::ins("NOOP"),
        // bodies that are themselves loops
        Tree::L(vec![Tree::I(2), Tree::ins("INDEX.DEFINE"), Tree::ins("EXEC.LOOP"), p()]),
        Tree::L(vec![Tree::IV(vec![4, 5]), Tree::ins("INTVECTOR.LOOP"), Tree::L(vec![p(), Tree::ins("INTEGER.POP")])]),
        Tree::L(vec![Tree::I(2), Tree::ins("INDEX.DEFINE"), Tree::ins("CODE.QUOTE"), p(), Tree::ins("CODE.LOOP")]),
    ];
    if thorough {
        v.push(Tree::L(vec![Tree::I(1), Tree::ins("INDEX.DEFINE"), Tree::ins("EXEC.LOOP"), Tree::L(vec![Tree::I(2), Tree::ins("INDEX.DEFINE"), Tree::ins("EXEC.LOOP"), p()])]));
        v.push(Tree::L(vec![Tree::B(true), Tree::ins("EXEC.IF"), p(), Tree::ins("NOOP")]));
        v.push(Tree::L(vec![Tree::ins("INDEX.DESTINATION"), p(), Tree::ins("INTEGER.POP")]));
        v.push(Tree::L(vec![Tree::ins("EXEC.DUP"), p()]));
    }
    v
}

fn int_vectors(maxlen: usize) -> Vec<Vec<i32>> {
    let mut out = vec![vec![]];
    let mut cur: Vec<Vec<i32>> = vec![vec![]];
    for _ in 0..maxlen {
        let mut next = vec![];
        for v in &cur {
            for x in [1, 2] {
                let mut w = v.clone();
                w.push(x);
                next.push(w);
            }
        }
        out.extend(next.iter().cloned());
        cur = next;
    }
    out
}

pub fn loops_family(ctx: &mut Ctx) {
    let mut real = real_with_probe();
    let nmax = if ctx.tier_thorough { 20 } else { 12 };
    let bs = bodies(true);
    let mut programs: Vec<(String, Tree)> = vec![];
    for body in &bs {
        for n in -1..=nmax {
            programs.push((
                format!("EXEC.LOOP n={}", n),
                Tree::L(vec![Tree::I(n), Tree::ins("INDEX.DEFINE"), Tree::ins("EXEC.LOOP"), body.clone(), Tree::I(99)]),
            ));
            programs.push((
                format!("CODE.LOOP n={}", n),
                Tree::L(vec![Tree::I(n), Tree::ins("INDEX.DEFINE"), Tree::ins("CODE.QUOTE"), body.clone(), Tree::ins("CODE.LOOP"), Tree::I(99)]),
            ));
        }
        for v in int_vectors(if ctx.tier_thorough { 5 } else { 4 }) {
            programs.push((format!("INTVECTOR.LOOP v={:?}", v), Tree::L(vec![Tree::IV(v), Tree::ins("INTVECTOR.LOOP"), body.clone(), Tree::I(99)])));
        }
    }
    // long straight-line lists with one EXEC-consuming instruction at position k (its operands lie across any
    // chunk boundary an implementation might use)
    for k in [0usize, 7, 14, 15, 16, 17, 30, 31, 32] {
        for ins in ["EXEC.DUP", "EXEC.K", "CODE.QUOTE", "EXEC.POP"] {
            let mut items: Vec<Tree> = (0..40).map(|j| Tree::I(1000 + j)).collect();
            items[k] = Tree::ins(ins);
            programs.push((format!("long-list {} at {}", ins, k), Tree::L(items)));
        }
        let mut items: Vec<Tree> = (0..40).map(|j| Tree::I(1000 + j)).collect();
        items[k] = Tree::I(3);
        items[k + 1] = Tree::ins("INDEX.DEFINE");
        items[k + 2] = Tree::ins("EXEC.LOOP");
        items[k + 3] = Tree::ins("PROBE");
        programs.push((format!("long-list EXEC.LOOP at {}", k + 2), Tree::L(items)));
    }
    // long loops with the simplest bodies
    for n in [17, 33, 100] {
        let body = Tree::L(vec![Tree::ins("INDEX.CURRENT"), Tree::ins("PROBE"), Tree::ins("INTEGER.POP")]);
        programs.push((format!("EXEC.LOOP n={}", n), Tree::L(vec![Tree::I(n), Tree::ins("INDEX.DEFINE"), Tree::ins("EXEC.LOOP"), body.clone(), Tree::I(99)])));
        programs.push((format!("INTVECTOR.LOOP len={}", n), Tree::L(vec![Tree::IV((0..n).collect()), Tree::ins("INTVECTOR.LOOP"), Tree::L(vec![Tree::ins("PROBE"), Tree::ins("INTEGER.POP")]), Tree::I(99)])));
    }
    // loops inside loops, two levels, generated from the kinds
    for outer in 0..3 {
        for inner in 0..3 {
            for n in 0..=2 {
                for k in 0..=2 {
                    let inner_prog = match inner {
                        0 => vec![Tree::I(k), Tree::ins("INDEX.DEFINE"), Tree::ins("EXEC.LOOP"), Tree::L(vec![Tree::ins("INDEX.CURRENT"), Tree::ins("PROBE"), Tree::ins("INTEGER.POP")])],
                        1 => vec![Tree::I(k), Tree::ins("INDEX.DEFINE"), Tree::ins("CODE.QUOTE"), Tree::ins("PROBE"), Tree::ins("CODE.LOOP")],
                        _ => vec![Tree::IV((0..k).collect()), Tree::ins("INTVECTOR.LOOP"), Tree::L(vec![Tree::ins("PROBE"), Tree::ins("INTEGER.POP")])],
                    };
                    let body = Tree::L(inner_prog);
                    let prog = match outer {
                        0 => vec![Tree::I(n), Tree::ins("INDEX.DEFINE"), Tree::ins("EXEC.LOOP"), body, Tree::I(99)],
                        1 => vec![Tree::I(n), Tree::ins("INDEX.DEFINE"), Tree::ins("CODE.QUOTE"), body, Tree::ins("CODE.LOOP"), Tree::I(99)],
                        _ => vec![Tree::IV((0..n).collect()), Tree::ins("INTVECTOR.LOOP"), body, Tree::I(99)],
                    };
                    programs.push((format!("nested outer={} inner={} n={} k={}", outer, inner, n, k), Tree::L(prog)));
                }
            }
        }
    }
    for (label, prog) in &programs {
        // two initial states: empty, and one with an index / vector / integer already present (must survive)
        for seeded in [false, true] {
            let id = match ctx.take() {
                Some(id) => id,
                None => continue,
            };
            ctx.transitions += 1;
            ctx.states += 1;
            let mut m0 = M::default();
            if seeded {
                m0.x = vec![(1, 9)];
                m0.iv = vec![vec![8, 8]];
                m0.i = vec![5];
            }
            m0.e = vec![prog.clone()];
            // reference: documented whole-run meaning
            let mut exp = m0.clone();
            let mut exp_log = vec![];
            let mut fuel = 20_000usize;
            run_struct(&mut exp, &mut exp_log, &mut fuel);
            let uses_code_loop = prog.key().contains("CODE.LOOP");
            let got = run_real(&mut real, &m0, 5_000);
            let (okey, verdict) = match got {
                Err(p) => (panic_class(&p), Verdict::fail("loop", &panic_class(&p), p)),
                Ok((g, log, steps, done)) => {
                    let okey = format!("{:?}|{}", log, g.key());
                    let mut problems = vec![];
                    if !done {
                        problems.push(format!("did not finish within {} steps", steps));
                    }
                    if log != exp_log {
                        problems.push(format!("probe log {:?} expected {:?}", log, exp_log));
                    }
                    let d = exp.diff(&g);
                    if !d.is_empty() {
                        problems.push(format!("final state differs in {:?}: {{{}}} expected {{{}}}", d, g.key(), exp.key()));
                    }
                    if problems.is_empty() {
                        (okey, Verdict::Pass)
                    } else if uses_code_loop {
                        // known finding: compare with the as-is reference interpreter
                        let mut a = m0.clone();
                        let mut alog = vec![];
                        let mut n = 0;
                        while n < 5_000 && ref_step(&mut a, &mut alog, true) {
                            n += 1;
                        }
                        if alog == log && a.diff(&g).is_empty() {
                            (okey, Verdict::Known("KF-CODE.LOOP-rearm-executes-body"))
                        } else {
                            (okey, Verdict::fail("CODE.LOOP", "whole-run", problems.join("; ")))
                        }
                    } else {
                        let site = label.split(' ').next().unwrap_or("loop").to_string();
                        (okey, Verdict::fail(&site, "whole-run", problems.join("; ")))
                    }
                }
            };
            ctx.nontrivial_mark(&okey);
            ctx.record(id, &okey, verdict, || format!("{} seeded={} program {}", label, seeded, prog.render()));
        }
    }
    // bodies that act on the EXEC stack beneath themselves (EXEC.POP as "break", EXEC.DUP, EXEC.K, EXEC.SWAP):
    // here the documented *unfolding* decides what happens, so the reference is the reference
    // interpreter running the documented single steps (not the structured whole-run meaning)
    let p = || Tree::ins("PROBE");
    let breakers: Vec<Tree> = vec![
        Tree::L(vec![p(), Tree::ins("INTEGER.DUP"), Tree::I(2), Tree::ins("INTEGER.="), Tree::ins("EXEC.IF"), Tree::ins("EXEC.POP"), Tree::ins("NOOP")]),
        Tree::L(vec![p(), Tree::ins("INDEX.CURRENT"), Tree::I(1), Tree::ins("INTEGER.="), Tree::ins("EXEC.IF"), Tree::ins("EXEC.POP"), Tree::ins("NOOP")]),
        Tree::ins("EXEC.DUP"),
        Tree::ins("EXEC.POP"),
        Tree::L(vec![p(), Tree::ins("EXEC.K")]),
        Tree::L(vec![p(), Tree::ins("EXEC.SWAP")]),
    ];
    let mut progs2: Vec<(String, Tree)> = vec![];
    for body in &breakers {
        for n in 0..=3 {
            progs2.push((format!("EXEC.LOOP n={} exec-touching body", n), Tree::L(vec![Tree::I(n), Tree::ins("INDEX.DEFINE"), Tree::ins("EXEC.LOOP"), body.clone(), Tree::I(99), p()])));
        }
        for v in int_vectors(3) {
            progs2.push((format!("INTVECTOR.LOOP v={:?} exec-touching body", v), Tree::L(vec![Tree::IV(v), Tree::ins("INTVECTOR.LOOP"), body.clone(), Tree::I(99), p()])));
        }
    }
    for (label, prog) in &progs2 {
        let id = match ctx.take() {
            Some(id) => id,
            None => continue,
        };
        ctx.transitions += 1;
        ctx.states += 1;
        let mut m0 = M::default();
        m0.i = vec![5];
        m0.e = vec![prog.clone()];
        let mut exp = m0.clone();
        let mut exp_log = vec![];
        let mut n = 0;
        while n < 3_000 && ref_step(&mut exp, &mut exp_log, false) {
            n += 1;
        }
        let (okey, verdict) = match run_real(&mut real, &m0, 3_000) {
            Err(p) => (panic_class(&p), Verdict::fail("loop", &panic_class(&p), p)),
            Ok((g, log, _steps, _done)) => {
                let okey = format!("{:?}|{}", log, g.key());
                let mut problems = vec![];
                if log != exp_log {
                    problems.push(format!("probe log {:?} expected {:?}", log, exp_log));
                }
                let d = exp.diff(&g);
                if !d.is_empty() {
                    problems.push(format!("final state differs in {:?}: {{{}}} expected {{{}}}", d, g.key(), exp.key()));
                }
                if problems.is_empty() {
                    (okey, Verdict::Pass)
                } else {
                    (okey, Verdict::fail(label.split(' ').next().unwrap_or("loop"), "unfolding", problems.join("; ")))
                }
            }
        };
        ctx.nontrivial_mark(&okey);
        ctx.record(id, &okey, verdict, || format!("{} program {}", label, prog.render()));
    }
    let _ = probe_of;
}

/// tokens of the conformance family: a cross-section of every instruction family plus literals of every kind
fn mixed_tokens(real: &Real) -> Vec<Tree> {
    let names = [
        "EXEC.S", "EXEC.K", "EXEC.IF", "EXEC.DUP", "EXEC.SWAP", "EXEC.ROT", "EXEC.LOOP", "EXEC.DEFINE", "EXEC.POP", "CODE.QUOTE", "CODE.DO", "CODE.DO*", "CODE.IF", "CODE.LOOP", "INTVECTOR.LOOP",
        "INDEX.DEFINE", "INDEX.CURRENT", "INDEX.INCREASE", "NAME.QUOTE", "INTEGER.DEFINE", "CODE.DEFINE", "CODE.DEFINITION", "BOOLEAN.DEFINE", "INTEGER.DUP", "INTEGER.SWAP", "INTEGER.YANK",
        "INTEGER.SHOVE", "INTEGER.YANKDUP", "INTEGER.ROT", "INTEGER.POP", "INTEGER.STACKDEPTH", "CODE.DUP", "CODE.SWAP", "CODE.YANK", "CODE.POP", "BOOLEAN.DUP", "BOOLEAN.SWAP", "NAME.DUP", "NAME.SWAP", "INTVECTOR.DUP", "FLOAT.DUP",
        "INTEGER.+", "INTEGER.-", "INTEGER.*", "INTEGER./", "INTEGER.%", "INTEGER.<", "INTEGER.=", "INTEGER.MAX", "INTEGER.FROMBOOLEAN", "INTEGER.FROMFLOAT", "BOOLEAN.NOT", "BOOLEAN.AND", "BOOLEAN.OR", "BOOLEAN.FROMINTEGER",
        "FLOAT.+", "FLOAT./", "FLOAT.FROMINTEGER", "FLOAT.<", "CODE.CAR", "CODE.CDR", "CODE.CONS", "CODE.LIST", "CODE.APPEND", "CODE.NTH", "CODE.INSERT", "CODE.EXTRACT", "CODE.SIZE", "CODE.LENGTH",
        "CODE.CONTAINS", "CODE.POSITION", "CODE.SUBST", "CODE.FROMINTEGER", "CODE.FROMNAME", "CODE.ATOM", "CODE.NULL", "CODE.=", "INTVECTOR.+", "INTVECTOR.GET", "INTVECTOR.SET", "INTVECTOR.LENGTH", "INTVECTOR.APPEND",
        "INTVECTOR.ROTATE", "INTVECTOR.SUM", "INTVECTOR.ONES", "BOOLVECTOR.AND", "BOOLVECTOR.GET", "BOOLVECTOR.COUNT", "FLOATVECTOR.+", "FLOATVECTOR.GET", "LIST.ADD", "LIST.GET", "LIST.SET", "LIST.REMOVE",
        "LIST.IVAL", "GRAPH.ADD", "GRAPH.NODE*ADD", "GRAPH.EDGE*ADD", "GRAPH.NODES", "GRAPH.DUP", "GRAPH.NODE*SETSTATE", "INPUT.READ", "INPUT.NEXT", "INPUT.GET", "OUTPUT.WRITE", "OUTPUT.FLUSH", "NAME.CAT", "NAME.=",
    ];
    let registered: std::collections::BTreeSet<String> = real.names().into_iter().collect();
    let mut v: Vec<Tree> = names.iter().filter(|n| registered.contains(**n)).map(|n| Tree::ins(n)).collect();
    v.extend([
        Tree::I(0),
        Tree::I(1),
        Tree::I(2),
        Tree::I(-1),
        Tree::I(9),
        Tree::B(true),
        Tree::B(false),
        Tree::F(0.5),
        Tree::F(-2.0),
        Tree::name("A"),
        Tree::name("BOUND2"),
        Tree::IV(vec![1, 2]),
        Tree::IV(vec![9, 1, 3]),
        Tree::BV(vec![true, false]),
        Tree::FV(vec![1.5]),
    ]);
    v
}

/// judgement of ONE interpreter step in the state the real execution has reached
pub fn judge_step(m: &M, out: &Outcome) -> Verdict {
    match m.e.first() {
        None => Verdict::Pass,
        Some(Tree::Ins(name)) => {
            let mut m0 = m.clone();
            m0.e.remove(0);
            refmodel::judge(name, &m0, out)
        }
        Some(top) => {
            let mut exp = m.clone();
            let mut log = vec![];
            ref_step(&mut exp, &mut log, false);
            match out {
                Outcome::Panic(p) => Verdict::fail("step", &panic_class(p), p.clone()),
                Outcome::Ok(g) => {
                    let d = exp.diff(g);
                    if d.is_empty() {
                        Verdict::Pass
                    } else {
                        Verdict::fail("step", &format!("mismatch:{:?}", d), format!("top item {} | documented {{{}}} observed {{{}}}", top.key(), crate::core::trunc(&exp.key(), 600), crate::core::trunc(&g.key(), 600)))
                    }
                }
            }
        }
    }
}

/// conform — conformance ALONG executions: every program tree up to S points over a mixed alphabet (a
/// cross-section of all instruction families), from three initial states, executed by single real steps; EVERY
/// step is judged by the reference in the state the real execution has reached (instruction steps by their
/// reference row incl. latitude and known findings, all other steps by the reference interpreter), so each
/// instruction is also decided on the states that other instructions leave behind.
pub fn conform_family(ctx: &mut Ctx) {
    let mut real = Real::new();
    let toks = mixed_tokens(&real);
    let mut progs = crate::treeops::trees_up_to(3, &toks);
    let sub: Vec<Tree> = toks.iter().step_by(if ctx.tier_thorough { 1 } else { 4 }).cloned().collect();
    // four points: flat triples and their nestings over a sub-alphabet (the whole alphabet in the thorough tier)
    progs.extend(crate::treeops::trees_up_to(4, &sub).into_iter().filter(|t| t.points() == 4));
    ctx.extra.push(("programs".into(), crate::core::J::Int(progs.len() as i64)));
    let mut some = M::default();
    some.i = vec![3, 1];
    some.b = vec![true];
    some.c = vec![Tree::L(vec![Tree::I(1), Tree::I(2)])];
    some.x = vec![(0, 2)];
    some.n = vec!["A".into()];
    let mut pop = crate::alpha::populated();
    pop.e.clear();
    let bases = [("empty", M::default()), ("some", some), ("populated", pop)];
    let horizon = 24;
    for prog in &progs {
        for (bl, base) in bases.iter() {
            let id = match ctx.take() {
                Some(id) => id,
                None => continue,
            };
            ctx.states += 1;
            ctx.crumb(id, "program");
            let mut m = base.clone();
            m.e.insert(0, prog.clone());
            let mut verdict = Verdict::Pass;
            let mut at = String::new();
            for k in 0..horizon {
                if m.e.is_empty() {
                    break;
                }
                ctx.transitions += 1;
                let out = step_once(&mut real, &m);
                let v = judge_step(&m, &out);
                match v {
                    Verdict::Pass => {}
                    Verdict::Known(idk) => {
                        if matches!(verdict, Verdict::Pass) {
                            verdict = Verdict::Known(idk);
                        }
                    }
                    Verdict::Fail { .. } => {
                        at = format!(" -- at step {} in state {{{}}}", k, crate::core::trunc(&m.key(), 700));
                        verdict = v;
                        break;
                    }
                }
                m = match out {
                    Outcome::Ok(g) => g,
                    Outcome::Panic(_) => break,
                };
            }
            let okey = m.key();
            ctx.nontrivial_mark(&okey);
            ctx.record(id, &okey, verdict, || format!("program {} on the {} state{}", prog.render(), bl, at));
        }
    }
}

pub fn run(ctx: &mut Ctx) {
    match ctx.family.as_str() {
        "step" => step_family(ctx),
        "conform" => conform_family(ctx),
        "loops" => loops_family(ctx),
        f => panic!("unknown family {}", f),
    }
}
