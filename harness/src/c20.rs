//! C20 — neighbourhood computation on index topologies is geometrically sound.
//! Exhaustive over (ntotal, ndim, index, radius) grids against brute-force geometry
//! in integer arithmetic, plus the structural laws (centre, order, symmetry,
//! monotonicity, bijection) checked on the implementation's own answers.

use crate::core::{guarded, panic_class, step_once, with_instr, Ctx, Outcome, Real, Verdict};
use crate::model::{Tree, M};
use crate::refmodel::{self, coords, edge_len, neighbors_ref};
use pushr::push::topology::Topology;

fn radii() -> Vec<f32> {
    // exactly representable lattice distances (0,1,2,3,5) and values strictly between lattice distances
    {
        let mut v = vec![0.0, 0.5, 1.0, 1.2, 1.6, 1.9, 2.0, 2.1, 2.5, 2.9, 3.0, 3.1, 4.0, 4.2, 4.3, 5.0, 7.0, 10.0, 100.0];
        // one ulp below / above lattice distances 1, sqrt 2, 2, sqrt 5
        for d in [1.0f32, 1.4142135, 2.0, 2.236068] {
            v.push(f32::from_bits(d.to_bits() - 1));
            v.push(d);
            v.push(f32::from_bits(d.to_bits() + 1));
        }
        v.sort_by(|a, b| a.partial_cmp(b).unwrap());
        v.dedup();
        v
    }
}

fn perfect_powers(limit: usize) -> Vec<usize> {
    let mut v = vec![];
    for d in 2..=5u32 {
        let mut e = 2usize;
        while let Some(p) = e.checked_pow(d) {
            if p > limit {
                break;
            }
            v.push(p);
            e += 1;
        }
    }
    v.sort();
    v.dedup();
    v
}

fn real_neighbors(ntotal: usize, ndim: usize, index: usize, r: f32) -> Result<Option<Vec<i32>>, String> {
    guarded(|| Topology::find_neighbors(&ntotal, &ndim, &index, &r).map(|v| v.values))
}

pub fn geometry(ctx: &mut Ctx) {
    let full_max = if ctx.tier_thorough { 343 } else { 64 };
    let mut sizes: Vec<usize> = (1..=full_max).collect();
    let powers = perfect_powers(if ctx.tier_thorough { 4096 } else { 1296 });
    for p in &powers {
        if !sizes.contains(p) {
            sizes.push(*p);
        }
    }
    let rs = radii();
    for &ntotal in &sizes {
        let max_dim = if powers.contains(&ntotal) { 5 } else { 4 };
        for ndim in 1..=max_dim {
            // all centres for the small sizes; corners, middle and last for the large perfect powers
            let centres: Vec<usize> = if ntotal <= full_max { (0..ntotal).collect() } else { vec![0, 1, ntotal / 2, ntotal - 2, ntotal - 1] };
            let id = match ctx.take() {
                Some(id) => id,
                None => continue,
            };
            ctx.transitions += 1;
            ctx.crumb(id, "geometry");
            let mut problems: Vec<(String, String)> = vec![];
            let e = edge_len(ntotal, ndim);
            // decompose_index is a bijection of 0..e^ndim-1 onto the hypercube
            if let Some(cube) = e.checked_pow(ndim as u32) {
                if cube <= 5000 {
                    let mut seen = std::collections::HashSet::new();
                    for i in 0..cube {
                        match guarded(|| Topology::decompose_index(&i, &e, &ndim)) {
                            Ok(Some(c)) => {
                                if c != coords(i, e, ndim) {
                                    problems.push(("decompose".into(), format!("decompose_index({}, edge {}, dim {}) = {:?} expected {:?}", i, e, ndim, c, coords(i, e, ndim))));
                                    break;
                                }
                                if c.iter().any(|x| *x >= e) || !seen.insert(c) {
                                    problems.push(("decompose-bijection".into(), format!("index {} edge {} dim {}", i, e, ndim)));
                                    break;
                                }
                            }
                            Ok(None) => {
                                problems.push(("decompose-none".into(), format!("index {} edge {} dim {}", i, e, ndim)));
                                break;
                            }
                            Err(p) => {
                                problems.push((panic_class(&p), p));
                                break;
                            }
                        }
                    }
                }
            }
            let mut nontrivial = 0u64;
            let mut table: Vec<Vec<Option<Vec<i32>>>> = vec![];
            'outer: for &c in &centres {
                let mut row = vec![];
                let mut prev: Option<Vec<i32>> = None;
                for &r in &rs {
                    ctx.states += 1;
                    let got = match real_neighbors(ntotal, ndim, c, r) {
                        Ok(g) => g,
                        Err(p) => {
                            problems.push((panic_class(&p), format!("find_neighbors({}, {}, {}, {}): {}", ntotal, ndim, c, r, p)));
                            break 'outer;
                        }
                    };
                    let want = neighbors_ref(ntotal, ndim, c, r);
                    // points within single-precision rounding distance of the radius may be on either side
                    let amb = refmodel::neighbors_ambiguous(ntotal, ndim, c, r);
                    let strip = |v: &Option<Vec<i32>>| v.as_ref().map(|x| x.iter().filter(|i| !amb.contains(i)).cloned().collect::<Vec<i32>>());
                    if strip(&got) != strip(&want) {
                        problems.push(("ball-mismatch".into(), format!("find_neighbors(ntotal {}, ndim {}, index {}, radius {}) = {:?} expected {:?} (edge {})", ntotal, ndim, c, r, got, want, e)));
                        break 'outer;
                    }
                    if let Some(g) = &got {
                        if g.len() > 1 {
                            nontrivial += 1;
                        }
                        // laws on the implementation's own answer (no reference value needed)
                        if !g.contains(&(c as i32)) {
                            problems.push(("no-centre".into(), format!("ntotal {} ndim {} index {} radius {}: {:?}", ntotal, ndim, c, r, g)));
                        }
                        if g.windows(2).any(|w| w[0] >= w[1]) {
                            problems.push(("not-ascending".into(), format!("ntotal {} ndim {} index {} radius {}: {:?}", ntotal, ndim, c, r, g)));
                        }
                        if g.iter().any(|x| *x < 0 || *x as usize >= ntotal) {
                            problems.push(("invalid-index".into(), format!("ntotal {} ndim {} index {} radius {}: {:?}", ntotal, ndim, c, r, g)));
                        }
                        if let Some(p) = &prev {
                            if !p.iter().all(|x| g.contains(x)) {
                                problems.push(("not-monotone".into(), format!("ntotal {} ndim {} index {}: radius {} loses a neighbour", ntotal, ndim, c, r)));
                            }
                        }
                        prev = Some(g.clone());
                    }
                    row.push(got);
                }
                table.push(row);
            }
            // symmetry over all pairs (only when every centre was computed)
            if problems.is_empty() && centres.len() == ntotal {
                'sym: for (ri, _r) in rs.iter().enumerate() {
                    for i in 0..ntotal {
                        if let Some(ni) = &table[i][ri] {
                            for j in ni {
                                let back = table[*j as usize][ri].as_ref().map(|v| v.contains(&(i as i32))).unwrap_or(false);
                                if !back {
                                    problems.push(("asymmetric".into(), format!("ntotal {} ndim {} radius {}: {} in N({}) but not conversely", ntotal, ndim, rs[ri], j, i)));
                                    break 'sym;
                                }
                            }
                        }
                    }
                }
            }
            let okey = format!("ntotal={} ndim={} edge={} nontrivial={}", ntotal, ndim, e, nontrivial);
            if nontrivial > 0 {
                ctx.nontrivial_mark(&okey);
            }
            let verdict = match problems.first() {
                None => Verdict::Pass,
                Some((class, detail)) => Verdict::fail("Topology::find_neighbors", class, detail.clone()),
            };
            ctx.record(id, &okey, verdict, || format!("ntotal {} ndim {} ({} centres x {} radii)", ntotal, ndim, centres.len(), rs.len()));
        }
    }
    // invalid parameters: nothing, never a crash
    for (ntotal, ndim, index, r) in [(0usize, 1usize, 0usize, 1.0f32), (5, 0, 0, 1.0), (5, 1, 5, 1.0), (5, 1, 9, 1.0), (5, 1, 0, -1.0), (5, 1, 0, f32::NAN), (5, 70, 0, 1.0), (1, 1, 0, f32::INFINITY)] {
        let id = match ctx.take() {
            Some(id) => id,
            None => continue,
        };
        ctx.transitions += 1;
        let got = real_neighbors(ntotal, ndim, index, r);
        let want = neighbors_ref(ntotal, ndim, index, r);
        let (okey, v) = match got {
            Err(p) => (panic_class(&p), Verdict::fail("Topology::find_neighbors", &panic_class(&p), p)),
            Ok(g) => {
                // ndim so large that the hypercube does not fit: None is acceptable
                if g == want || (ndim >= 64 && g.is_none()) {
                    (format!("{:?}", g), Verdict::Pass)
                } else {
                    (format!("{:?}", g), Verdict::fail("Topology::find_neighbors", "invalid-parameters", format!("({}, {}, {}, {}) = {:?} expected {:?}", ntotal, ndim, index, r, g, want)))
                }
            }
        };
        ctx.record(id, &okey, v, || format!("invalid parameters ntotal {} ndim {} index {} radius {}", ntotal, ndim, index, r));
    }
}

/// LIST.NEIGHBOR* by name: all operand tuples over clamping classes
/// long one-dimensional topologies (coordinate differences beyond 46340, whose square exceeds i32) and
/// wide two-dimensional ones: centres at both ends and in the middle, radii around the size
pub fn long(ctx: &mut Ctx) {
    let cases: Vec<(usize, usize)> = vec![(46_340, 1), (46_341, 1), (46_342, 1), (50_000, 1), (65_537, 1), (100_000, 1), (10_000, 2), (40_000, 2), (46_656, 3)];
    for (ntotal, ndim) in cases {
        let e = edge_len(ntotal, ndim);
        let centres = [0usize, 1, ntotal / 2, ntotal - 2, ntotal - 1];
        let rs: Vec<f32> = vec![0.0, 1.0, 2.5, (e as f32) / 2.0, e as f32 - 2.0, e as f32 - 1.0, e as f32, e as f32 + 1.0, 46_340.0, 46_341.0, 46_342.0, 1e6];
        for c in centres {
            let id = match ctx.take() {
                Some(id) => id,
                None => continue,
            };
            ctx.transitions += rs.len() as u64;
            ctx.states += 1;
            ctx.crumb(id, "long");
            let mut problems: Vec<(String, String)> = vec![];
            let mut prev: Option<Vec<i32>> = None;
            let mut sizes = vec![];
            for &r in &rs {
                let mut sorted = rs.clone();
                sorted.sort_by(|a, b| a.partial_cmp(b).unwrap());
                let _ = sorted;
                match real_neighbors(ntotal, ndim, c, r) {
                    Err(p) => {
                        problems.push((panic_class(&p), format!("find_neighbors({}, {}, {}, {}): {}", ntotal, ndim, c, r, p)));
                        break;
                    }
                    Ok(got) => {
                        let want = neighbors_ref(ntotal, ndim, c, r);
                        let amb = refmodel::neighbors_ambiguous(ntotal, ndim, c, r);
                        let strip = |v: &Option<Vec<i32>>| v.as_ref().map(|x| x.iter().filter(|i| !amb.contains(i)).cloned().collect::<Vec<i32>>());
                        if strip(&got) != strip(&want) {
                            let (g, w) = (got.clone().unwrap_or_default(), want.clone().unwrap_or_default());
                            problems.push(("ball-mismatch".into(), format!("find_neighbors(ntotal {}, ndim {}, index {}, radius {}) returns {} indices (first {:?}, last {:?}), expected {} (first {:?}, last {:?})", ntotal, ndim, c, r, g.len(), g.first(), g.last(), w.len(), w.first(), w.last())));
                            break;
                        }
                        sizes.push(got.as_ref().map(|g| g.len()).unwrap_or(0));
                        prev = got;
                    }
                }
            }
            let _ = prev;
            let v = match problems.first() {
                None => Verdict::Pass,
                Some((c, d)) => Verdict::fail("Topology::find_neighbors", c, d.clone()),
            };
            ctx.nontrivial_mark(&format!("{}|{}|{:?}", ntotal, c, sizes));
            ctx.record(id, &format!("{}|{}|{:?}", ntotal, c, sizes), v, || format!("ntotal {} ndim {} centre {} x {} radii", ntotal, ndim, c, rs.len()));
        }
    }
}

/// every sequence of up to four neighbourhood queries over a menu of ten (grids that share an edge length,
/// grids that differ in it, one-dimensional and three-dimensional ones) on ONE thread: every answer equals the
/// brute-force ball, whatever was asked before
pub fn history(ctx: &mut Ctx) {
    let menu: Vec<(usize, usize, usize, f32)> = vec![(36, 1, 14, 1.0), (36, 2, 14, 1.0), (27, 3, 13, 1.5), (16, 2, 0, 1.0), (5, 2, 4, 1.0), (7, 2, 3, 1.0), (9, 2, 8, 2.0), (8, 3, 7, 1.0), (100, 2, 55, 1.5), (10, 1, 9, 3.0)];
    let want: Vec<Option<Vec<i32>>> = menu.iter().map(|(n, d, c, r)| neighbors_ref(*n, *d, *c, *r)).collect();
    let k = menu.len();
    let maxlen = if ctx.tier_thorough { 5 } else { 4 };
    for len in 1..=maxlen {
        for code in 0..k.pow(len as u32) {
            let id = match ctx.take() {
                Some(id) => id,
                None => continue,
            };
            ctx.transitions += len as u64;
            ctx.states += 1;
            let mut c = code;
            let seq: Vec<usize> = (0..len)
                .map(|_| {
                    let x = c % k;
                    c /= k;
                    x
                })
                .collect();
            let mut problem = None;
            for (pos, q) in seq.iter().enumerate() {
                let (n, d, ce, r) = menu[*q];
                match real_neighbors(n, d, ce, r) {
                    Err(p) => {
                        problem = Some((panic_class(&p), p));
                        break;
                    }
                    Ok(got) => {
                        if got != want[*q] {
                            problem = Some(("depends-on-earlier-queries".to_string(), format!("query {} of the sequence {:?}: find_neighbors{:?} = {:?}, expected {:?}", pos + 1, seq.iter().map(|i| menu[*i]).collect::<Vec<_>>(), menu[*q], got, want[*q])));
                            break;
                        }
                    }
                }
            }
            let okey = format!("{:?}|{}", seq, problem.is_some());
            let v = match problem {
                None => Verdict::Pass,
                Some((c, d)) => Verdict::fail("Topology::find_neighbors", &c, d),
            };
            ctx.nontrivial_mark(&okey);
            ctx.record(id, &okey, v, || format!("query sequence {:?}", seq));
        }
    }
}

pub fn instr(ctx: &mut Ctx) {
    let mut real = Real::new();
    let sizes = [-1, 0, 1, 8, 9, 27, 125];
    let idxs = [i32::MIN, -1, 0, 1, 4, 26, 124, 125, i32::MAX];
    let dims = [i32::MIN, -1, 0, 1, 2, 3, 26, 40, 63, 64, 65, 200, i32::MAX];
    let rads = [-1.0f32, 0.0, 1.0, 1.6, 2.0, f32::NAN, f32::INFINITY];
    let positions = [-1, 0, 1, i32::MAX];
    // CODE stack of records: position k holds ( bool int float ) values recognisable by k
    // every third record starts with literals of other kinds (an INDEX, a vector) ahead of the addressed values
    let records: Vec<Tree> = (0..9)
        .map(|k| {
            let mut v = vec![Tree::B(k % 2 == 0), Tree::I(10 + k), Tree::F(0.5 + k as f32), Tree::L(vec![Tree::I(100 + k), Tree::B(true)])];
            if k % 3 == 1 {
                v.insert(0, Tree::Idx(k as usize, 9));
                v.insert(1, Tree::IV(vec![k]));
            }
            Tree::L(v)
        })
        .collect();
    for name in ["LIST.NEIGHBOR*IDS", "LIST.NEIGHBOR*BVALS", "LIST.NEIGHBOR*IVALS", "LIST.NEIGHBOR*FVALS"] {
        for size in sizes {
            for index in idxs {
                for dim in dims {
                    for r in rads {
                        let ps: &[i32] = if name == "LIST.NEIGHBOR*IDS" { &[0] } else { &positions };
                        for p in ps {
                            for ncode in [0usize, 3, 9] {
                                let id = match ctx.take() {
                                    Some(id) => id,
                                    None => continue,
                                };
                                ctx.transitions += 1;
                                ctx.states += 1;
                                ctx.crumb(id, name);
                                let mut m0 = M::default();
                                // operand order (top first): [position,] size, index, dimensions
                                m0.i = vec![size, index, dim, 77];
                                if name != "LIST.NEIGHBOR*IDS" {
                                    m0.i.insert(0, *p);
                                }
                                m0.f = vec![r, 9.5];
                                m0.c = records[..ncode].to_vec();
                                let out = step_once(&mut real, &with_instr(&m0, name));
                                let v = refmodel::judge(name, &m0, &out);
                                let okey = format!("{}|{}", name, out.key());
                                if let Outcome::Ok(g) = &out {
                                    if g.iv.len() + g.bv.len() + g.fv.len() > 0 {
                                        ctx.nontrivial_mark(&okey);
                                    }
                                }
                                ctx.record(id, &okey, v, || format!("{} state {{{}}}", name, m0.key()));
                            }
                        }
                    }
                }
            }
        }
    }
}

pub fn run(ctx: &mut Ctx) {
    match ctx.family.as_str() {
        "geometry" => geometry(ctx),
        "instr" => instr(ctx),
        "long" => long(ctx),
        "history" => history(ctx),
        f => panic!("unknown family {}", f),
    }
}
