//! C01 — any Push program executes without crashing the host (families beyond the
//! single-step sweep in steps.rs):
//!   bfs       — the interpreter as a transition system: before each step the environment may put
//!               one more token on EXEC (any of the registered instruction names, a literal, a quoted
//!               item) or let pending code run; states de-duplicated on the canonical snapshot;
//!   programs  — every token tree up to S points over a control alphabet, from three initial states,
//!               through `run` (small limits) and through `step`*; nesting ladder;
//!   generated — every program pushr's own generator emits under all RNG scripts with <= d deviations.

use crate::alpha::{populated, size_like};
use crate::c12::{farey_grid, judged_pass, reduced_grid, scripted, RunOut};
use crate::core::{guarded, panic_class, step_once, Ctx, Outcome, Real, Verdict};
use crate::model::{build, item_of, observe, tree_of, Tree, M};
use crate::treeops::trees_up_to;
use pushr::push::interpreter::PushInterpreter;
use pushr::push::item::Item;
use pushr::push::parser::PushParser;
use pushr::push::random::CodeGenerator;
use std::collections::{HashSet, VecDeque};

fn literal_tokens() -> Vec<Tree> {
    vec![
        Tree::I(i32::MIN),
        Tree::I(-1),
        Tree::I(0),
        Tree::I(1),
        Tree::I(3),
        Tree::I(i32::MAX),
        Tree::F(0.0),
        Tree::F(-2.5),
        Tree::F(f32::NAN),
        Tree::F(f32::INFINITY),
        Tree::B(true),
        Tree::B(false),
        Tree::name("A"),
        Tree::name("B"),
        Tree::BV(vec![]),
        Tree::BV(vec![true, false]),
        Tree::IV(vec![]),
        Tree::IV(vec![9, 1, i32::MAX]),
        Tree::FV(vec![]),
        Tree::FV(vec![1.5, f32::NAN]),
        Tree::L(vec![]),
        Tree::L(vec![Tree::I(1), Tree::L(vec![Tree::name("A")])]),
        Tree::L(vec![Tree::ins("CODE.QUOTE"), Tree::L(vec![Tree::I(2), Tree::I(3)])]),
        Tree::L(vec![Tree::ins("EXEC.Y"), Tree::ins("NOOP")]),
    ]
}

fn too_big(m: &M) -> bool {
    m.e.len() > 12 || m.c.len() > 8 || m.i.len() > 8 || m.f.len() > 8 || m.b.len() > 8 || m.n.len() > 8 || m.bv.len() > 6 || m.iv.len() > 6 || m.fv.len() > 6 || m.graphs.len() > 4 || m.e.iter().chain(m.c.iter()).any(|t| t.points() > 60)
}

/// inside the resource envelope: an allocation-sizing instruction with a large INTEGER on top is C15's
fn outside_envelope(m: &M, tok: &Tree) -> bool {
    if let Tree::Ins(n) = tok {
        if size_like(n) {
            return m.i.iter().take(4).any(|v| *v > 2000);
        }
        if n == "EXEC.CMD" {
            return m.n.iter().any(|x| x.contains(' ') || x.len() > 8);
        }
    }
    false
}

pub fn bfs(ctx: &mut Ctx) {
    let mut real = Real::new();
    let mut full: Vec<Tree> = real.names().into_iter().map(|n| Tree::Ins(n)).collect();
    full.extend(literal_tokens());
    // reduced alphabet for the deeper level: instructions that move items between stacks or re-arm code
    let reduced_names = [
        "EXEC.Y", "EXEC.S", "EXEC.K", "EXEC.IF", "EXEC.DUP", "EXEC.FLUSH", "EXEC.ROT", "EXEC.YANK", "EXEC.SHOVE", "EXEC.LOOP", "CODE.LOOP", "INTVECTOR.LOOP", "INDEX.DEFINE", "CODE.QUOTE", "CODE.DO", "CODE.DO*", "CODE.IF", "CODE.DISCREPANCY", "CODE.INSERT", "CODE.EXTRACT", "CODE.NTH", "CODE.SUBST", "CODE.CONS", "CODE.CDR", "CODE.YANK", "CODE.FLUSH", "INTEGER.YANK", "INTEGER.ROT", "INTEGER.%", "INTEGER./",
        "BOOLVECTOR.ROTATE", "INTVECTOR.ROTATE", "FLOATVECTOR.ROTATE", "INTVECTOR.+", "FLOATVECTOR./", "BOOLVECTOR.AND", "INTVECTOR.FROMINT", "LIST.ADD", "LIST.SET", "LIST.GET", "LIST.REMOVE", "INPUT.GET", "OUTPUT.WRITE", "GRAPH.ADD", "GRAPH.NODE*ADD", "GRAPH.EDGE*ADD", "GRAPH.DUP", "GRAPH.NODE*STATESWITCH", "NAME.QUOTE", "INTEGER.DEFINE", "CODE.DEFINE", "CODE.DEFINITION", "NAME.CAT",
    ];
    let mut reduced: Vec<Tree> = reduced_names.iter().map(|n| Tree::ins(n)).collect();
    reduced.extend(literal_tokens().into_iter().step_by(3));
    let depth_full = 2usize;
    let depth_max = if ctx.tier_thorough { 4 } else { 3 };
    let mut roots = vec![M::default()];
    let mut pop = populated();
    pop.e.truncate(2);
    roots.push(pop);
    let mut seen: HashSet<u64> = HashSet::new();
    let mut frontier: VecDeque<(M, usize, usize)> = VecDeque::new(); // state, depth, first action index
    for r in roots {
        seen.insert(crate::core::h64(&r.key()));
        frontier.push_back((r, 0, usize::MAX));
    }
    while let Some((m, depth, first)) = frontier.pop_front() {
        ctx.states += 1;
        ctx.max_depth = ctx.max_depth.max(depth as u64);
        if depth >= depth_max {
            continue;
        }
        let alphabet: &Vec<Tree> = if depth < depth_full { &full } else { &reduced };
        // actions: one token on top of EXEC then a step; or a plain step of pending code
        for ai in 0..=alphabet.len() {
            let mut before = m.clone();
            let label;
            if ai < alphabet.len() {
                if outside_envelope(&m, &alphabet[ai]) {
                    continue;
                }
                before.e.insert(0, alphabet[ai].clone());
                label = alphabet[ai].render();
            } else {
                if m.e.is_empty() {
                    continue;
                }
                if let Some(t) = m.e.first() {
                    if outside_envelope(&m, t) {
                        continue;
                    }
                }
                label = "<step>".to_string();
            }
            let id = ctx.next_id;
            ctx.next_id += 1;
            ctx.mark_case(id);
            // sharded by the first action of the history (the whole subtree stays in one worker)
            let f0 = if depth == 0 { ai } else { first };
            let mine = match ctx.only {
                Some(_) => true,
                None => f0 % ctx.nshards == ctx.shard,
            };
            if !mine {
                continue;
            }
            let rec = ctx.only.map(|o| o == id).unwrap_or(true);
            if rec {
                ctx.transitions += 1;
                ctx.crumb(id, &label);
            }
            let out = step_once(&mut real, &before);
            let (okey, verdict) = match &out {
                Outcome::Ok(g) => (g.key(), Verdict::Pass),
                Outcome::Panic(p) => (panic_class(p), Verdict::fail(&label, &panic_class(p), p.clone())),
            };
            if let Outcome::Ok(g) = &out {
                if rec && g.key() != m.key() {
                    ctx.nontrivial_mark(&okey);
                }
            }
            ctx.record_if(rec, id, &okey, verdict, || format!("state {{{}}} (depth {}) then {}", m.key(), depth, label));
            if let Outcome::Ok(g) = out {
                // states at the depth bound are checked (the transition ran) but not expanded: no need to keep them
                if too_big(&g) || depth + 1 >= depth_max {
                    continue;
                }
                let k = crate::core::h64(&g.key());
                if !seen.contains(&k) {
                    seen.insert(k);
                    frontier.push_back((g, depth + 1, f0));
                }
            }
        }
    }
    ctx.caps.push(format!("depth bound {} ({} with the full alphabet of {} actions, then {} actions)", depth_max, depth_full, full.len() + 1, reduced.len() + 1));
    ctx.fixpoint = Some(false);
}

fn control_tokens() -> Vec<Tree> {
    let names = [
        "EXEC.Y", "EXEC.S", "EXEC.K", "EXEC.IF", "EXEC.DUP", "EXEC.POP", "EXEC.FLUSH", "EXEC.SWAP", "EXEC.ROT", "EXEC.YANK", "EXEC.LOOP", "EXEC.DEFINE", "EXEC.=", "CODE.QUOTE", "CODE.DO", "CODE.DO*", "CODE.IF", "CODE.LOOP", "CODE.DUP", "CODE.LIST", "CODE.CONS", "CODE.APPEND", "CODE.DEFINE", "INDEX.DEFINE", "INDEX.CURRENT", "INDEX.INCREASE", "INDEX.POP", "INTVECTOR.LOOP", "NAME.QUOTE", "INTEGER.DEFINE", "INTEGER.+", "INTEGER.DUP",
    ];
    let mut v: Vec<Tree> = names.iter().map(|n| Tree::ins(n)).collect();
    v.extend([Tree::I(0), Tree::I(2), Tree::I(-1), Tree::B(true), Tree::B(false), Tree::name("A"), Tree::IV(vec![1, 2]), Tree::F(0.5)]);
    v
}

fn run_both_ways(real: &mut Real, m0: &M) -> Result<String, String> {
    let Real { iset, icache } = real;
    // through the bounded run loop
    let a = guarded(|| {
        let mut st = build(m0);
        pushr::push::verif::install_clock(0);
        pushr::push::verif::install_script(vec![], 100_000);
        let o = PushInterpreter::run(&mut st, iset);
        format!("{:?}", o)
    });
    pushr::push::verif::clear_script();
    pushr::push::verif::clear_clock();
    let a = a?;
    // by single steps
    let b = guarded(|| {
        let mut st = build(m0);
        pushr::push::verif::install_clock(0);
        pushr::push::verif::install_script(vec![], 100_000);
        let mut n = 0;
        while n < 80 && !PushInterpreter::step(&mut st, iset, icache) {
            n += 1;
        }
        n
    });
    pushr::push::verif::clear_script();
    pushr::push::verif::clear_clock();
    let b = b?;
    Ok(format!("{} / {} steps", a, b))
}

pub fn programs(ctx: &mut Ctx) {
    let mut real = Real::new();
    let toks = control_tokens();
    let mut progs = trees_up_to(3, &toks);
    // four points over a sub-alphabet (five in the thorough tier)
    let sub: Vec<Tree> = toks.iter().step_by(3).cloned().collect();
    progs.extend(trees_up_to(if ctx.tier_thorough { 5 } else { 4 }, &sub).into_iter().filter(|t| t.points() >= 4));
    ctx.extra.push(("programs".into(), crate::core::J::Int(progs.len() as i64)));
    let mut some = M::default();
    some.i = vec![3, 1];
    some.b = vec![true];
    some.c = vec![Tree::L(vec![Tree::I(1), Tree::I(2)])];
    some.x = vec![(0, 2)];
    let mut pop = populated();
    pop.e.clear();
    let bases = [("empty", M::default()), ("some", some), ("populated", pop)];
    for prog in &progs {
        for (bl, base) in bases.iter() {
            let id = match ctx.take() {
                Some(id) => id,
                None => continue,
            };
            ctx.transitions += 1;
            ctx.states += 1;
            ctx.crumb(id, "program");
            let mut m0 = base.clone();
            m0.e.insert(0, prog.clone());
            m0.cfg.eval_push_limit = 60;
            let (okey, v) = match run_both_ways(&mut real, &m0) {
                Ok(s) => (s, Verdict::Pass),
                Err(p) => (panic_class(&p), Verdict::fail("program", &panic_class(&p), p)),
            };
            ctx.nontrivial_mark(&format!("{}|{}", okey, prog.key()));
            ctx.record(id, &okey, v, || format!("program {} on the {} state", prog.render(), bl));
        }
    }
    // nesting ladder: parse, print, Item::size, run
    for depth in [1usize, 8, 64, 512] {
        let id = match ctx.take() {
            Some(id) => id,
            None => continue,
        };
        ctx.transitions += 1;
        ctx.crumb(id, "nesting");
        let text = format!("{} 1 INTEGER.DUP {}", "( ".repeat(depth), ") ".repeat(depth));
        let Real { iset, .. } = &mut real;
        let r = guarded(|| {
            let mut st = pushr::push::state::PushState::new();
            PushParser::parse_program(&mut st, iset, &text);
            let top = st.exec_stack.get(0).cloned();
            let printed = st.exec_stack.to_string();
            let size = top.as_ref().map(Item::size).unwrap_or(0);
            st.configuration.eval_push_limit = 2000;
            let o = PushInterpreter::run(&mut st, iset);
            (printed.len(), size, format!("{:?}", o), st.int_stack.to_string())
        });
        let (okey, v) = match r {
            Ok((plen, size, o, ints)) => {
                if size != depth + 2 {
                    (format!("size {}", size), Verdict::fail("nesting", "size", format!("nesting {}: Item::size = {} expected {}", depth, size, depth + 2)))
                } else if ints != "1 1" {
                    (ints.clone(), Verdict::fail("nesting", "result", format!("nesting {}: INTEGER stack {:?} after {}", depth, ints, o)))
                } else {
                    (format!("depth {} printed {} bytes {}", depth, plen, o), Verdict::Pass)
                }
            }
            Err(p) => (panic_class(&p), Verdict::fail("nesting", &panic_class(&p), p)),
        };
        ctx.record(id, &okey, v, || format!("nesting depth {}", depth));
    }
    let _ = (item_of, observe, tree_of);
}

pub fn generated(ctx: &mut Ctx) {
    let full = farey_grid(12);
    let red = reduced_grid();
    let mut real = Real::new();
    // the whole registry except allocation-sizing instructions (resource envelope, C15) and the shell-out
    let list: Vec<String> = real.names().into_iter().filter(|n| !size_like(n) && n != "EXEC.CMD").collect();
    let nmax = if ctx.tier_thorough { 8 } else { 6 };
    let mut m = M::default();
    m.bindings.insert("X".into(), Tree::I(1));
    m.bindings.insert("Y".into(), Tree::L(vec![Tree::I(2), Tree::ins("INTEGER.+")]));
    m.cfg.new_erc_name_probability = 0.5;
    for n in 1..=nmax {
        let icache = pushr::push::instructions::InstructionCache::new(list.clone());
        let lab = format!("generated program of size {}", n);
        let rr = &mut real;
        let m2 = m.clone();
        judged_pass(ctx, &lab, &full, 1, &red, if ctx.tier_thorough { 2 } else { 1 }, &mut |_c, script| {
            let (r, log) = scripted(script, 4000, || {
                let st = build(&m2);
                tree_of(&CodeGenerator::random_code_with_size(&st, &icache, n))
            });
            match r {
                Err(p) => RunOut { log, okey: panic_class(&p), verdict: Verdict::fail("generator", &panic_class(&p), p), nontrivial: false },
                Ok(t) => {
                    let mut m0 = m2.clone();
                    m0.e = vec![t.clone()];
                    m0.i = vec![2, 1];
                    m0.cfg.eval_push_limit = 60;
                    let (okey, v) = match run_both_ways(rr, &m0) {
                        Ok(s) => (format!("{}|{}", t.key(), s), Verdict::Pass),
                        Err(p) => (panic_class(&p), Verdict::fail("generated-program", &panic_class(&p), format!("{} -- program {}", p, t.render()))),
                    };
                    RunOut { log, okey, verdict: v, nontrivial: true }
                }
            }
        });
    }
}

pub fn run(ctx: &mut Ctx) {
    match ctx.family.as_str() {
        "step" => crate::steps::c01_step(ctx),
        "bfs" => bfs(ctx),
        "programs" => programs(ctx),
        "generated" => generated(ctx),
        f => panic!("unknown family {}", f),
    }
}
