//! C17 — ring buffer and INPUT/OUTPUT queues.
//! family "buffer": BFS to a fixpoint on the *full internal state* of
//! `PushBuffer<i32>` (derived Debug: container incl. stale cells, start, end, len)
//! for every capacity and both kinds, against a bounded VecDeque.
//! family "io": BFS over INPUT.* / OUTPUT.* instruction histories (see refstep).

use crate::core::{guarded, live_history, panic_class, step_once, with_instr, Ctx, LiveStep, Outcome, Real, Verdict};
use crate::model::{new_buffer, Msg, M};
use crate::refmodel;
use pushr::push::buffer::PushBuffer;
use std::collections::{HashMap, HashSet, VecDeque};

#[derive(Clone, Debug, PartialEq)]
enum Op {
    Push(i32),
    PushForce(i32),
    Pop,
    Flush,
    Get(usize),
    Copy(usize),
    GetMutWrite(usize, i32),
    CopyOldest,
    PeekOldest,
    PeekNewest,
    Iter,
    ToString,
    Size,
    IsEmpty,
    IsFull,
    Capacity,
}

fn ops(cap: usize, vals: &[i32]) -> Vec<Op> {
    let mut v = vec![
        Op::Pop,
        Op::Flush,
        Op::CopyOldest,
        Op::PeekOldest,
        Op::PeekNewest,
        Op::Iter,
        Op::ToString,
        Op::Size,
        Op::IsEmpty,
        Op::IsFull,
        Op::Capacity,
    ];
    for a in vals {
        v.push(Op::Push(*a));
        v.push(Op::PushForce(*a));
    }
    for i in 0..=cap + 1 {
        v.push(Op::Get(i));
        v.push(Op::Copy(i));
        v.push(Op::GetMutWrite(i, 9));
    }
    // positions far outside any buffer: the type's boundaries and the 32-bit boundaries inside a 64-bit index
    for i in [usize::MAX, usize::MAX - 1, usize::MAX / 2, 1usize << 31, (1usize << 31) + 1, u32::MAX as usize, (u32::MAX as usize) + 1] {
        v.push(Op::Get(i));
        v.push(Op::Copy(i));
    }
    v
}

fn is_mutating(op: &Op) -> bool {
    matches!(op, Op::Push(_) | Op::PushForce(_) | Op::Pop | Op::Flush | Op::GetMutWrite(..))
}

fn apply_real(b: &mut PushBuffer<i32>, op: &Op) -> String {
    match op {
        Op::Push(a) => {
            b.push(*a);
            "()".into()
        }
        Op::PushForce(a) => {
            b.push_force(*a);
            "()".into()
        }
        Op::Pop => format!("{:?}", b.pop()),
        Op::Flush => {
            b.flush();
            "()".into()
        }
        Op::Get(i) => format!("{:?}", b.get(*i)),
        Op::Copy(i) => format!("{:?}", b.copy(*i)),
        Op::GetMutWrite(i, a) => match b.get_mut(*i) {
            Some(r) => {
                let old = *r;
                *r = *a;
                format!("Some({})", old)
            }
            None => "None".into(),
        },
        Op::CopyOldest => format!("{:?}", b.copy_oldest()),
        Op::PeekOldest => format!("{:?}", b.peek_oldest()),
        Op::PeekNewest => format!("{:?}", b.peek_newest()),
        Op::Iter => format!("{:?}", b.iter().cloned().collect::<Vec<i32>>()),
        Op::ToString => {
            // order of printing is not fixed by the property: compare as a multiset
            let mut toks: Vec<String> = b.to_string().split_whitespace().map(|s| s.to_string()).collect();
            toks.sort();
            toks.join(" ")
        }
        Op::Size => format!("{}", b.size()),
        Op::IsEmpty => format!("{}", b.is_empty()),
        Op::IsFull => format!("{}", b.is_full()),
        Op::Capacity => format!("{}", b.capacity()),
    }
}

/// bounded sequence, front = oldest
fn apply_ref(r: &mut VecDeque<i32>, cap: usize, queue: bool, op: &Op) -> String {
    let pos = |r: &VecDeque<i32>, i: usize| -> Option<usize> {
        if i < r.len() {
            Some(if queue { i } else { r.len() - 1 - i })
        } else {
            None
        }
    };
    match op {
        Op::Push(a) => {
            if r.len() < cap {
                r.push_back(*a);
            }
            "()".into()
        }
        Op::PushForce(a) => {
            if r.len() == cap {
                r.pop_front();
            }
            r.push_back(*a);
            "()".into()
        }
        Op::Pop => format!("{:?}", if queue { r.pop_front() } else { r.pop_back() }),
        Op::Flush => {
            r.clear();
            "()".into()
        }
        Op::Get(i) | Op::Copy(i) => format!("{:?}", pos(r, *i).map(|p| r[p])),
        Op::GetMutWrite(i, a) => match pos(r, *i) {
            Some(p) => {
                let old = r[p];
                r[p] = *a;
                format!("Some({})", old)
            }
            None => "None".into(),
        },
        Op::CopyOldest | Op::PeekOldest => format!("{:?}", r.front()),
        Op::PeekNewest => format!("{:?}", r.back()),
        Op::Iter => format!("{:?}", r.iter().cloned().collect::<Vec<i32>>()),
        Op::ToString => {
            let mut toks: Vec<String> = r.iter().map(|x| x.to_string()).collect();
            toks.sort();
            toks.join(" ")
        }
        Op::Size => format!("{}", r.len()),
        Op::IsEmpty => format!("{}", r.is_empty()),
        Op::IsFull => format!("{}", r.len() == cap),
        Op::Capacity => format!("{}", cap),
    }
}

fn rebuild(queue: bool, cap: usize, hist: &[Op]) -> (PushBuffer<i32>, VecDeque<i32>) {
    let mut b = new_buffer::<i32>(queue, cap);
    let mut r = VecDeque::new();
    for op in hist {
        apply_real(&mut b, op);
        apply_ref(&mut r, cap, queue, op);
    }
    (b, r)
}

fn bfs_buffer(ctx: &mut Ctx, queue: bool, cap: usize, vals: &[i32], state_cap: usize) {
    let site = format!("PushBuffer<{}>", if queue { "Queue" } else { "Stack" });
    let mut seen: HashSet<String> = HashSet::new();
    let mut frontier: VecDeque<Vec<Op>> = VecDeque::new();
    let k0 = guarded(|| format!("{:?}", new_buffer::<i32>(queue, cap))).unwrap_or_default();
    seen.insert(k0);
    frontier.push_back(vec![]);
    let all_ops = ops(cap, vals);
    let mut complete = true;
    // a transition budget per (kind, capacity): never reached on the unchanged tree (its fixpoint needs < 10^5
    // transitions); it bounds the degenerate case in which history-dependent bookkeeping makes every history a state
    let budget: u64 = if ctx.tier_thorough { 3_000_000 } else { 150_000 };
    let t_start = ctx.transitions;
    while let Some(hist) = frontier.pop_front() {
        if ctx.transitions - t_start > budget {
            complete = false;
            break;
        }
        ctx.states += 1;
        ctx.max_depth = ctx.max_depth.max(hist.len() as u64);
        for op in &all_ops {
            let (id, rec) = ctx.take_exec();
            ctx.transitions += 1;
            let descr = || format!("{} capacity={} history={:?} then {:?}", site, cap, hist, op);
            let got = guarded(|| {
                let (mut b, mut r) = rebuild(queue, cap, &hist);
                let before = format!("{:?}", b);
                let rr = apply_ref(&mut r, cap, queue, op);
                let rb = apply_real(&mut b, op);
                let live_ref: Vec<i32> = r.iter().cloned().collect();
                // live contents of the real buffer, seen through positional access (kind order) ...
                let mut live_pos: Vec<i32> = (0..b.size()).filter_map(|i| b.copy(i)).collect();
                if !queue {
                    live_pos.reverse();
                }
                (before, rr, rb, live_ref, live_pos, b.size(), format!("{:?}", b))
            });
            match got {
                Err(p) => {
                    let class = panic_class(&p);
                    ctx.record_if(rec, id, &class, Verdict::fail(&site, &class, p), descr);
                }
                Ok((before, rr, rb, live_ref, live_pos, size, after)) => {
                    let okey = format!("{:?} -> {} {:?}", op, rb, live_pos);
                    let v = if rb != rr {
                        Verdict::fail(&site, &format!("return:{}", opname(op)), format!("returned {} but the bounded sequence returns {}", rb, rr))
                    } else if live_pos != live_ref {
                        Verdict::fail(&site, &format!("contents:{}", opname(op)), format!("live items {:?} but the bounded sequence holds {:?}", live_pos, live_ref))
                    } else if size > cap {
                        Verdict::fail(&site, "size>capacity", format!("size {} capacity {}", size, cap))
                    } else {
                        Verdict::Pass
                    };
                    if is_mutating(op) && before != after {
                        ctx.nontrivial_mark(&okey);
                    }
                    ctx.record_if(rec, id, &okey, v, descr);
                    // every operation whose internal state (derived Debug text) differs afterwards leads to a successor --
                    // also a read: bookkeeping that a read updates is not a violation in itself (it is not observable),
                    // but whatever the read left behind is explored further
                    if (is_mutating(op) || before != after) && !seen.contains(&after) {
                        if seen.len() >= state_cap {
                            complete = false;
                        } else {
                            seen.insert(after);
                            let mut h = hist.clone();
                            h.push(op.clone());
                            frontier.push_back(h);
                        }
                    }
                }
            }
        }
    }
    if !complete {
        ctx.caps.push(format!("{} cap={} state cap {} reached", site, cap, state_cap));
    }
    ctx.fixpoint = Some(ctx.fixpoint.unwrap_or(true) && complete);
}

fn opname(op: &Op) -> &'static str {
    match op {
        Op::Push(_) => "push",
        Op::PushForce(_) => "push_force",
        Op::Pop => "pop",
        Op::Flush => "flush",
        Op::Get(_) => "get",
        Op::Copy(_) => "copy",
        Op::GetMutWrite(..) => "get_mut",
        Op::CopyOldest => "copy_oldest",
        Op::PeekOldest => "peek_oldest",
        Op::PeekNewest => "peek_newest",
        Op::Iter => "iter",
        Op::ToString => "to_string",
        Op::Size => "size",
        Op::IsEmpty => "is_empty",
        Op::IsFull => "is_full",
        Op::Capacity => "capacity",
    }
}

// ---------------------------------------------------------------------------
// instruction level

#[derive(Clone, Debug)]
enum Act {
    Enqueue(usize),
    Ins(&'static str),
    PushInt(i32),
    PushVecs(usize),
}

fn messages() -> Vec<Msg> {
    vec![
        Msg { header: vec![], body: vec![] },
        Msg { header: vec![1], body: vec![true] },
        Msg { header: vec![1, 2], body: vec![false, true, true] },
    ]
}

fn io_actions() -> Vec<Act> {
    vec![
        Act::Enqueue(1),
        Act::Enqueue(2),
        Act::Enqueue(0),
        Act::Ins("INPUT.READ"),
        Act::Ins("INPUT.NEXT"),
        Act::Ins("INPUT.AVAILABLE"),
        Act::Ins("INPUT.STACKDEPTH"),
        Act::Ins("INPUT.GET"),
        Act::PushInt(0),
        Act::PushInt(1),
        Act::PushInt(5),
        Act::PushInt(-1),
        Act::PushVecs(1),
        Act::PushVecs(2),
        Act::Ins("OUTPUT.WRITE"),
        Act::Ins("OUTPUT.FLUSH"),
        Act::Ins("OUTPUT.STACKDEPTH"),
    ]
}

/// environment actions are applied to the model state (they are the *external
/// module's* and the *program's literal pushes*); instruction actions go through
/// the real interpreter and are compared with the reference.
fn apply_env(m: &mut M, a: &Act) -> bool {
    let msgs = messages();
    match a {
        Act::Enqueue(k) => {
            // the external module uses `input_stack.push`: ignored when 10 are queued
            if m.input.len() < 10 {
                m.input.push(msgs[*k].clone());
            }
            true
        }
        Act::PushInt(v) => {
            m.i.insert(0, *v);
            true
        }
        Act::PushVecs(k) => {
            m.bv.insert(0, msgs[*k].body.clone());
            m.iv.insert(0, msgs[*k].header.clone());
            true
        }
        Act::Ins(_) => false,
    }
}

/// the history as operations on one live state: environment actions act on the live queues and stacks,
/// instruction actions are executed by the interpreter
fn live_steps(acts: &[Act], hist: &[usize], last: &Act) -> Vec<LiveStep> {
    let mut steps: Vec<LiveStep> = vec![];
    let mut pending: Vec<Act> = vec![];
    for a in hist.iter().map(|i| &acts[*i]).chain(std::iter::once(last)) {
        match a {
            Act::Ins(name) => {
                let env: Vec<Act> = std::mem::take(&mut pending);
                steps.push(LiveStep {
                    pre: Box::new(move |st| {
                        let msgs = messages();
                        for e in &env {
                            match e {
                                Act::Enqueue(k) => st.input_stack.push(pushr::push::io::PushMessage::new(pushr::push::vector::IntVector::new(msgs[*k].header.clone()), pushr::push::vector::BoolVector::new(msgs[*k].body.clone()))),
                                Act::PushInt(v) => st.int_stack.push(*v),
                                Act::PushVecs(k) => {
                                    st.bool_vector_stack.push(pushr::push::vector::BoolVector::new(msgs[*k].body.clone()));
                                    st.int_vector_stack.push(pushr::push::vector::IntVector::new(msgs[*k].header.clone()));
                                }
                                Act::Ins(_) => {}
                            }
                        }
                    }),
                    push: Some(crate::model::Tree::ins(name)),
                });
            }
            other => pending.push(other.clone()),
        }
    }
    steps
}

fn bfs_io(ctx: &mut Ctx, depth_max: usize) {
    let mut real = Real::new();
    let acts = io_actions();
    let mut seen: HashMap<String, ()> = HashMap::new();
    let mut frontier: VecDeque<(M, Vec<usize>)> = VecDeque::new();
    let m0 = M::default();
    seen.insert(m0.key(), ());
    frontier.push_back((m0, vec![]));
    while let Some((m, hist)) = frontier.pop_front() {
        ctx.states += 1;
        ctx.max_depth = ctx.max_depth.max(hist.len() as u64);
        if hist.len() >= depth_max {
            continue;
        }
        for (ai, a) in acts.iter().enumerate() {
            let mut next = m.clone();
            if !apply_env(&mut next, a) {
                if let Act::Ins(name) = a {
                    let (id, rec) = ctx.take_exec();
                    ctx.transitions += 1;
                    let before = with_instr(&m, name);
                    let out = step_once(&mut real, &before);
                    let mut verdict = refmodel::judge(name, &m, &out);
                    let okey = out.key();
                    if let Outcome::Ok(after) = &out {
                        if after.key() != m.key() {
                            ctx.nontrivial_mark(&format!("{}|{}", name, okey));
                        }
                        // the same history on ONE live state (the queues are never rebuilt): same end state
                        if matches!(verdict, Verdict::Pass) {
                            let live = live_history(&mut real, &M::default(), &live_steps(&acts, &hist, a));
                            match live {
                                Outcome::Ok(l) if l.key() == after.key() => {}
                                Outcome::Ok(l) => verdict = Verdict::fail(name, "live-history-differs", format!("executed on one live state the history ends in {{{}}}, step by step from rebuilt states in {{{}}}", l.key(), after.key())),
                                Outcome::Panic(p) => verdict = Verdict::fail(name, &panic_class(&p), format!("live history: {}", p)),
                            }
                        }
                    }
                    let names: Vec<String> = hist.iter().map(|i| format!("{:?}", acts[*i])).collect();
                    let mk = m.key();
                    ctx.record_if(rec, id, &okey, verdict, || format!("history=[{}] state={{{}}} then {}", names.join(", "), mk, name));
                    match out {
                        Outcome::Ok(after) => next = after,
                        Outcome::Panic(_) => continue,
                    }
                }
            }
            // bound the alphabet-driven growth so that the space stays finite
            if next.i.len() > 2 || next.bv.len() > 2 || next.iv.len() > 2 || next.b.len() > 2 {
                continue;
            }
            let k = next.key();
            if !seen.contains_key(&k) {
                seen.insert(k, ());
                let mut h = hist.clone();
                h.push(ai);
                frontier.push_back((next, h));
            }
        }
    }
    ctx.fixpoint = Some(false);
    ctx.caps.push(format!("depth bound {}", depth_max));
}

/// straight histories that fill the queues to capacity and one beyond
fn fill(ctx: &mut Ctx) {
    let mut real = Real::new();
    // INPUT: 10 + 1 enqueued by the environment, then read/next all of them in order
    let mut m = M::default();
    for k in 0..11 {
        let msg = Msg { header: vec![k], body: vec![k % 2 == 0, true] };
        if m.input.len() < 10 {
            m.input.push(msg);
        }
    }
    let script: Vec<&str> = (0..12).flat_map(|_| vec!["INPUT.READ", "INPUT.NEXT"]).collect();
    run_script(ctx, &mut real, m, &script, "fill-input");
    // OUTPUT: 3 + 1 writes
    let mut m = M::default();
    for k in 0..4 {
        m.bv.push(vec![k % 2 == 0]);
        m.iv.push(vec![k]);
    }
    run_script(ctx, &mut real, m, &["OUTPUT.WRITE", "OUTPUT.WRITE", "OUTPUT.STACKDEPTH", "OUTPUT.WRITE", "OUTPUT.WRITE", "OUTPUT.STACKDEPTH", "OUTPUT.FLUSH", "OUTPUT.STACKDEPTH"], "fill-output");
}

/// long straight histories on ONE live state (the queues are the same objects throughout): the host enqueues
/// and consumes messages between instructions, the queues are filled, drained through a whole number of
/// laps of their ring, flushed and refilled; after every instruction the live state equals the state the
/// reference arrives at.
fn live_scripts(ctx: &mut Ctx) {
    #[derive(Clone)]
    enum Ev {
        Enq(usize),       // host: input_stack.push(message k)
        HostPopOut,       // host: output_stack.pop()
        Ints(Vec<i32>),   // program literal pushes
        Vecs(usize),      // program literal pushes: body and header of message k
        Ins(&'static str),
    }
    let msgs = messages();
    let mut scripts: Vec<(&str, Vec<Ev>)> = vec![];
    // fill the INPUT queue, drain it by exactly one lap, enqueue again, read
    let mut s: Vec<Ev> = (0..10).map(|k| Ev::Enq(k % 3)).collect();
    s.extend((0..10).map(|_| Ev::Ins("INPUT.NEXT")));
    s.push(Ev::Enq(1));
    s.extend([Ev::Ins("INPUT.READ"), Ev::Ints(vec![0]), Ev::Ins("INPUT.GET"), Ev::Ints(vec![5]), Ev::Ins("INPUT.GET"), Ev::Ins("INPUT.AVAILABLE"), Ev::Ins("INPUT.STACKDEPTH"), Ev::Ins("INPUT.NEXT"), Ev::Ins("INPUT.READ")]);
    scripts.push(("input: one full lap", s));
    // 25 rounds of enqueue-two / consume-one / read (the ring wraps several times, the queue fills up)
    let mut s: Vec<Ev> = vec![];
    for k in 0..25 {
        s.extend([Ev::Enq(k % 3), Ev::Enq((k + 1) % 3), Ev::Ins("INPUT.READ"), Ev::Ins("INPUT.NEXT"), Ev::Ins("INPUT.AVAILABLE")]);
    }
    s.extend((0..12).flat_map(|_| vec![Ev::Ins("INPUT.READ"), Ev::Ins("INPUT.NEXT")]));
    scripts.push(("input: wrap and fill", s));
    // INPUT.FLUSH after partial consumption, then new messages
    let mut s: Vec<Ev> = vec![Ev::Enq(0), Ev::Enq(1), Ev::Enq(2), Ev::Ins("INPUT.NEXT"), Ev::Ins("INPUT.FLUSH"), Ev::Enq(2), Ev::Ins("INPUT.READ"), Ev::Ints(vec![0]), Ev::Ins("INPUT.GET"), Ev::Ins("INPUT.NEXT"), Ev::Enq(1), Ev::Ins("INPUT.READ")];
    s.extend([Ev::Ins("INPUT.FLUSH"), Ev::Ins("INPUT.READ"), Ev::Ins("INPUT.AVAILABLE")]);
    scripts.push(("input: flush after consumption", s));
    // OUTPUT: write, host consumes, flush, write, host consumes; overflow
    let mut s: Vec<Ev> = vec![];
    for k in 0..3 {
        s.extend([Ev::Vecs(k), Ev::Ins("OUTPUT.WRITE")]);
    }
    s.extend([Ev::HostPopOut, Ev::Ins("OUTPUT.STACKDEPTH"), Ev::Ins("OUTPUT.FLUSH"), Ev::Vecs(1), Ev::Ins("OUTPUT.WRITE"), Ev::Ins("OUTPUT.STACKDEPTH"), Ev::HostPopOut, Ev::Ins("OUTPUT.STACKDEPTH")]);
    for k in 0..8 {
        s.extend([Ev::Vecs(k % 3), Ev::Ins("OUTPUT.WRITE"), Ev::Ins("OUTPUT.STACKDEPTH")]);
        if k % 3 == 2 {
            s.push(Ev::HostPopOut);
        }
    }
    scripts.push(("output: consume, flush, overflow", s));
    let mut real = Real::new();
    let registered = real.names();
    for (label, script) in scripts {
        // model chain
        let mut m = M::default();
        let mut pending: Vec<Ev> = vec![];
        let mut steps: Vec<LiveStep> = vec![];
        let mut k = 0usize;
        for ev in script.iter() {
            match ev {
                Ev::Ins(name) => {
                    if !registered.iter().any(|n| n == name) {
                        pending.clear();
                        continue;
                    }
                    k += 1;
                    let (id, rec) = ctx.take_exec();
                    ctx.transitions += 1;
                    ctx.states += 1;
                    // reference: environment events on the model, then the instruction's row
                    let before = m.clone();
                    let out = step_once(&mut real, &with_instr(&before, name));
                    let mut verdict = refmodel::judge(name, &before, &out);
                    let env: Vec<Ev> = std::mem::take(&mut pending);
                    let ms = msgs.clone();
                    steps.push(LiveStep {
                        pre: Box::new(move |st| {
                            for e in &env {
                                match e {
                                    Ev::Enq(j) => st.input_stack.push(pushr::push::io::PushMessage::new(pushr::push::vector::IntVector::new(ms[*j].header.clone()), pushr::push::vector::BoolVector::new(ms[*j].body.clone()))),
                                    Ev::HostPopOut => {
                                        let _ = st.output_stack.pop();
                                    }
                                    Ev::Ints(v) => {
                                        for x in v.iter().rev() {
                                            st.int_stack.push(*x);
                                        }
                                    }
                                    Ev::Vecs(j) => {
                                        st.bool_vector_stack.push(pushr::push::vector::BoolVector::new(ms[*j].body.clone()));
                                        st.int_vector_stack.push(pushr::push::vector::IntVector::new(ms[*j].header.clone()));
                                    }
                                    Ev::Ins(_) => {}
                                }
                            }
                        }),
                        push: Some(crate::model::Tree::ins(name)),
                    });
                    let okey = out.key();
                    if let (Verdict::Pass, Outcome::Ok(after)) = (&verdict, &out) {
                        match live_history(&mut real, &M::default(), &steps) {
                            Outcome::Ok(l) if l.key() == after.key() => {}
                            Outcome::Ok(l) => verdict = Verdict::fail(name, "live-history-differs", format!("after {} instructions on one live state: {{{}}}; the reference arrives at {{{}}}", k, l.key(), after.key())),
                            Outcome::Panic(p) => verdict = Verdict::fail(name, &panic_class(&p), format!("live history, instruction {}: {}", k, p)),
                        }
                    }
                    ctx.nontrivial_mark(&format!("{}|{}|{}", label, k, okey));
                    ctx.record_if(rec, id, &format!("{}|{}|{}", label, k, okey), verdict, || format!("{}: instruction {} ({})", label, k, name));
                    match out {
                        Outcome::Ok(after) => m = after,
                        Outcome::Panic(_) => break,
                    }
                }
                other => {
                    // environment events act on the model at once
                    match other {
                        Ev::Enq(j) => {
                            if m.input.len() < 10 {
                                m.input.push(msgs[*j].clone());
                            }
                        }
                        Ev::HostPopOut => {
                            if !m.output.is_empty() {
                                m.output.remove(0);
                            }
                        }
                        Ev::Ints(v) => {
                            for x in v.iter().rev() {
                                m.i.insert(0, *x);
                            }
                        }
                        Ev::Vecs(j) => {
                            m.bv.insert(0, msgs[*j].body.clone());
                            m.iv.insert(0, msgs[*j].header.clone());
                        }
                        Ev::Ins(_) => {}
                    }
                    pending.push(other.clone());
                }
            }
        }
    }
}

fn run_script(ctx: &mut Ctx, real: &mut Real, mut m: M, script: &[&str], label: &str) {
    for (k, name) in script.iter().enumerate() {
        let (id, rec) = ctx.take_exec();
        ctx.transitions += 1;
        ctx.states += 1;
        let out = step_once(real, &with_instr(&m, name));
        let verdict = refmodel::judge(name, &m, &out);
        let mk = m.key();
        ctx.record_if(rec, id, &out.key(), verdict, || format!("{} step {} state={{{}}} then {}", label, k, mk, name));
        match out {
            Outcome::Ok(after) => m = after,
            Outcome::Panic(_) => return,
        }
    }
}

pub fn run(ctx: &mut Ctx) {
    match ctx.family.as_str() {
        "buffer" => {
            let maxcap = if ctx.tier_thorough { 5 } else { 4 };
            for queue in [true, false] {
                for cap in 1..=maxcap {
                    // on the unchanged tree the fixpoint has ~10^3 states; bookkeeping fields that depend on the history
                    // (operation counters) make every history a state of its own: the cap bounds that case
                    bfs_buffer(ctx, queue, cap, &[1, 2], if ctx.tier_thorough { 200_000 } else { 20_000 });
                }
            }
        }
        "io" => {
            let d = if ctx.tier_thorough { 8 } else { 6 };
            bfs_io(ctx, d);
            fill(ctx);
            live_scripts(ctx);
        }
        f => panic!("unknown family {}", f),
    }
}
