//! As-is variants of the known findings (see /verif/known_findings.json and
//! DESIGN.md §7). For a case where the implementation deviates from the
//! documented semantics, `asis` says whether it deviates *exactly as listed*:
//! it returns the finding id only if the observed outcome equals the recorded
//! current behaviour at that site. Any other deviation is a violation.

use crate::core::Outcome;
use crate::model::{Tree, M};

/// current behaviour at a known-finding site: (finding id, the state(s) pushr produces today)
pub fn asis_states(name: &str, m0: &M) -> Option<(&'static str, Vec<M>)> {
    let mut m = m0.clone();
    match name {
        // doc: "Pushes FALSE if the top FLOAT is 0.0, or TRUE otherwise"; upstream test
        // boolean_from_float_compares_to_zero pins the inverse. The operand is kept.
        "BOOLEAN.FROMFLOAT" if !m.f.is_empty() => {
            let v = m.f[0] == 0.0;
            m.b.insert(0, v);
            Some(("KF-BOOLEAN.FROMFLOAT-inverted", vec![m]))
        }
        "BOOLEAN.FROMINTEGER" if !m.i.is_empty() => {
            let v = m.i[0] == 0;
            m.b.insert(0, v);
            Some(("KF-BOOLEAN.FROMINTEGER-inverted", vec![m]))
        }
        // doc: quotient "truncated toward negative infinity" (floored modulus); upstream test
        // integer_modulus_pushes_result pins -13 % 10 == -3 (truncated remainder)
        "INTEGER.%" if m.i.len() >= 2 && m.i[0] != 0 => {
            let b = m.i.remove(0);
            let a = m.i.remove(0);
            m.i.insert(0, a.wrapping_rem(b));
            Some(("KF-INTEGER.%-truncated", vec![m]))
        }
        "FLOAT.%" if m.f.len() >= 2 && m.f[0] != 0.0 => {
            let b = m.f.remove(0);
            let a = m.f.remove(0);
            m.f.insert(0, a % b);
            Some(("KF-FLOAT.%-truncated", vec![m]))
        }
        // doc: index "computed as in CODE.EXTRACT" (modulo the number of points, absolute value);
        // upstream test code_insert_does_nothing_when_index_too_big pins: an index outside
        // 1..points-1 is used raw and nothing is inserted
        "CODE.INSERT" if !m.i.is_empty() && m.c.len() >= 2 => {
            let i = m.i.remove(0);
            let n = m.c[0].points() as i64;
            if (i as i64) < 0 || (i as i64) >= n {
                Some(("KF-CODE.INSERT-index-not-normalised", vec![m]))
            } else {
                None
            }
        }
        // doc: the body is executed destination-many times; the re-armed loop has to put the body
        // back on the CODE stack. Upstream test code_loop_pushes_body_and_updated_loop pins the
        // shape ( INDEX.INCREASE CODE.LOOP body ), whose body is *executed* instead of re-quoted.
        "CODE.LOOP" if !m.c.is_empty() && !m.x.is_empty() && m.x[0].0 < m.x[0].1 => {
            let body = m.c.remove(0);
            m.e.insert(0, Tree::L(vec![Tree::ins("INDEX.INCREASE"), Tree::ins("CODE.LOOP"), body.clone()]));
            m.e.insert(0, body);
            Some(("KF-CODE.LOOP-rearm-executes-body", vec![m]))
        }
        _ => None,
    }
}

pub fn asis(name: &str, m0: &M, out: &Outcome) -> Option<&'static str> {
    let got = match out {
        Outcome::Ok(g) => g,
        Outcome::Panic(_) => return None,
    };
    let (id, states) = asis_states(name, m0)?;
    if states.iter().any(|s| s.diff(got).is_empty()) {
        Some(id)
    } else {
        None
    }
}
