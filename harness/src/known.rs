//! As-is variants of the known findings (see /verif/known_findings.json and
//! DESIGN.md §7). For a case where the implementation deviates from the
//! documented semantics, `asis` says whether it deviates *exactly as listed*:
//! it returns the finding id only if the observed outcome equals the recorded
//! current behaviour at that site. Any other deviation is a violation.

use crate::core::Outcome;
use crate::model::M;

pub fn asis(name: &str, m0: &M, out: &Outcome) -> Option<&'static str> {
    let _ = (name, m0, out);
    None
}
