//! C19 — LIST records move items between stacks without loss, duplication or reordering.

use crate::core::{step_once, with_instr, Ctx, Outcome, Real, Verdict};
use crate::model::{Comp, Tree, M};
use crate::refmodel;
use crate::treeops::atoms;

fn id_alphabet() -> Vec<i32> {
    vec![1, 2, 3, 4, 5, 6, 7, 8, 9, 10, 11, 12, 0, 13, -1]
}

fn id_vectors(maxlen: usize) -> Vec<Vec<i32>> {
    let a = id_alphabet();
    let mut out: Vec<Vec<i32>> = vec![vec![]];
    let mut cur: Vec<Vec<i32>> = vec![vec![]];
    for _ in 0..maxlen {
        let mut next = vec![];
        for v in &cur {
            for x in &a {
                let mut w = v.clone();
                w.push(*x);
                next.push(w);
            }
        }
        out.extend(next.iter().cloned());
        cur = next;
    }
    out
}

fn base_full() -> M {
    let mut m = M::default();
    m.b = vec![true, false];
    m.i = vec![21, 22, 23];
    m.f = vec![1.5, 2.5];
    m.n = vec!["na".into(), "nb".into()];
    m.c = vec![Tree::L(vec![Tree::I(31)]), Tree::I(32), Tree::L(vec![Tree::B(true), Tree::L(vec![Tree::I(33), Tree::F(3.5)])])];
    m.e = vec![Tree::I(41), Tree::L(vec![Tree::I(42)])];
    m.bv = vec![vec![true], vec![false, true]];
    m.iv = vec![vec![51], vec![52, 53]];
    m.fv = vec![vec![6.5], vec![7.5, 8.5]];
    m
}
fn base_half() -> M {
    let mut m = M::default();
    m.b = vec![true];
    m.i = vec![21];
    m.f = vec![1.5, 2.5];
    m.n = vec!["na".into()];
    m
}

/// records already on the CODE stack that PRINT like the records LIST.SET is about to build from the
/// FLOAT / FLOATVECTOR stacks (floats inside items print with three decimals) but hold different values
fn base_twin() -> M {
    let mut m = M::default();
    m.b = vec![true];
    m.i = vec![21];
    m.f = vec![2.5001, 2.5004];
    m.n = vec!["na".into()];
    m.fv = vec![vec![6.5001], vec![6.5004]];
    m.c = vec![Tree::L(vec![Tree::F(2.5004)]), Tree::L(vec![Tree::F(2.5004), Tree::F(2.5001)]), Tree::L(vec![Tree::FV(vec![6.5004])]), Tree::L(vec![Tree::F(2.5001), Tree::F(2.5004)])];
    m
}

/// every atom held anywhere in the nine stacks (record contents included): a multiset
fn all_atoms(m: &M) -> Vec<String> {
    let mut v: Vec<String> = vec![];
    v.extend(m.b.iter().map(|x| Tree::B(*x).key()));
    v.extend(m.i.iter().map(|x| Tree::I(*x).key()));
    v.extend(m.f.iter().map(|x| Tree::F(*x).key()));
    v.extend(m.n.iter().map(|x| Tree::Name(x.clone()).key()));
    v.extend(m.bv.iter().map(|x| Tree::BV(x.clone()).key()));
    v.extend(m.iv.iter().map(|x| Tree::IV(x.clone()).key()));
    v.extend(m.fv.iter().map(|x| Tree::FV(x.clone()).key()));
    for t in m.c.iter().chain(m.e.iter()) {
        v.extend(atoms(t));
    }
    v.sort();
    v
}

fn exec_case(ctx: &mut Ctx, real: &mut Real, name: &str, m0: &M, extra: impl FnOnce(&M, &M, &mut Real) -> Option<(String, String)>) {
    let id = match ctx.take() {
        Some(id) => id,
        None => return,
    };
    ctx.transitions += 1;
    ctx.states += 1;
    ctx.crumb(id, name);
    let out = step_once(real, &with_instr(m0, name));
    let mut verdict = refmodel::judge(name, m0, &out);
    if matches!(verdict, Verdict::Pass) {
        if let Outcome::Ok(g) = &out {
            if let Some((class, detail)) = extra(m0, g, real) {
                verdict = Verdict::fail(name, &class, detail);
            }
        }
    }
    let okey = format!("{}|{}", name, out.key());
    if let Outcome::Ok(g) = &out {
        if !g.diff(m0).is_empty() {
            ctx.nontrivial_mark(&okey);
        }
    }
    ctx.record(id, &okey, verdict, || format!("{} state {{{}}}", name, m0.key()));
}

fn run_to_quiescence(real: &mut Real, m: &M, horizon: usize) -> Option<M> {
    let mut cur = m.clone();
    for _ in 0..horizon {
        if cur.e.is_empty() {
            return Some(cur);
        }
        match step_once(real, &cur) {
            Outcome::Ok(g) => cur = g,
            Outcome::Panic(_) => return None,
        }
    }
    None
}

pub fn add_set(ctx: &mut Ctx) {
    let mut real = Real::new();
    let vecs = id_vectors(if ctx.tier_thorough { 4 } else { 3 });
    ctx.extra.push(("id_vectors".into(), crate::core::J::Int(vecs.len() as i64)));
    let positions = [-1, 0, 1, 2, 3, i32::MAX];
    for ids in &vecs {
        for (bi, base) in [base_full(), base_half(), base_twin()].iter().enumerate() {
            // the half-populated bases only for the shorter vectors
            if bi >= 1 && ids.len() > 2 {
                continue;
            }
            let mut m0 = base.clone();
            m0.iv.insert(0, ids.clone());
            // LIST.ADD + conservation: the multiset of atoms over all stacks and record contents is
            // unchanged, apart from the consumed id vector
            exec_case(ctx, &mut real, "LIST.ADD", &m0, |m0, g, real| {
                let mut before = all_atoms(m0);
                let idkey = Tree::IV(m0.iv[0].clone()).key();
                if let Some(p) = before.iter().position(|x| *x == idkey) {
                    before.remove(p);
                }
                let after = all_atoms(g);
                if before != after {
                    return Some(("conservation".into(), format!("atoms before {:?} after {:?}", before, after)));
                }
                // LIST.GET + execution puts the literal items back, in their original relative order
                let literal_only = m0.iv[0].iter().all(|id| matches!(id, 1 | 2 | 5 | 6 | 9 | 10 | 11 | 0 | 13 | -1 | 7 | 8 | 12));
                if literal_only && g.e == m0.e {
                    let mut m1 = g.clone();
                    m1.i.insert(0, 0);
                    let saved_exec = std::mem::take(&mut m1.e);
                    m1.e = vec![Tree::ins("LIST.GET")];
                    if let Some(mut fin) = run_to_quiescence(real, &m1, 64) {
                        fin.e = saved_exec;
                        // expected: the state before LIST.ADD, minus the id vector, plus the record left on CODE
                        let mut want = m0.clone();
                        want.iv.remove(0);
                        want.c.insert(0, g.c[0].clone());
                        let d = want.diff(&fin);
                        if !d.is_empty() {
                            return Some(("get-roundtrip".into(), format!("after LIST.ADD, LIST.GET and execution {:?} differ: {{{}}} expected {{{}}}", d, fin.key(), want.key())));
                        }
                    } else {
                        return Some(("get-roundtrip".into(), "executing the LIST.GET result did not finish".into()));
                    }
                }
                None
            });
            if ids.len() <= 2 || ctx.tier_thorough {
                for cdepth in 0..=3usize {
                    for pos in positions {
                        let mut m1 = base.clone();
                        m1.c.truncate(cdepth);
                        m1.iv.insert(0, ids.clone());
                        m1.i.insert(0, pos);
                        exec_case(ctx, &mut real, "LIST.SET", &m1, |m0, g, _| {
                            // exactly the addressed record may change; nothing else on CODE moves
                            if m0.c.is_empty() {
                                return None;
                            }
                            if g.c.len() == m0.c.len() {
                                let changed: Vec<usize> = (0..g.c.len()).filter(|k| g.c[*k] != m0.c[*k]).collect();
                                if changed.len() > 1 {
                                    return Some(("set-several".into(), format!("records {:?} changed", changed)));
                                }
                            }
                            None
                        });
                    }
                }
            }
        }
    }
}

pub fn access(ctx: &mut Ctx) {
    let mut real = Real::new();
    let positions = [i32::MIN, -1, 0, 1, 2, 3, i32::MAX];
    let ns = [i32::MIN, -1, 0, 1, 2, 3, 5, 9, i32::MAX];
    let records = vec![
        Tree::L(vec![Tree::B(true), Tree::I(10), Tree::F(0.5), Tree::L(vec![Tree::I(11), Tree::B(false), Tree::L(vec![Tree::F(1.5), Tree::I(12)])]), Tree::name("A")]),
        Tree::L(vec![]),
        Tree::I(7),
        Tree::L(vec![Tree::L(vec![Tree::L(vec![Tree::B(false)])]), Tree::B(true), Tree::IV(vec![1, 2]), Tree::F(f32::NAN)]),
        // literals of other kinds ahead of the values: an INDEX, vectors, a name, an instruction
        Tree::L(vec![Tree::Idx(1, 2), Tree::IV(vec![9]), Tree::I(21), Tree::Idx(0, 0), Tree::BV(vec![true]), Tree::B(false), Tree::FV(vec![1.5]), Tree::F(2.5), Tree::ins("NOOP"), Tree::I(22), Tree::B(true), Tree::F(3.5)]),
        // one top-level element, many values inside; deep nesting
        Tree::L(vec![Tree::L(vec![Tree::I(10), Tree::I(20), Tree::I(30), Tree::I(40), Tree::F(1.5), Tree::F(2.5), Tree::F(3.5), Tree::B(true), Tree::B(false), Tree::B(true)])]),
        Tree::L(vec![Tree::L(vec![Tree::L(vec![Tree::L(vec![Tree::I(1), Tree::I(2), Tree::I(3), Tree::B(true), Tree::B(true), Tree::F(9.5), Tree::F(8.5), Tree::F(7.5)])])])]),
    ];
    for cdepth in 0..=records.len() {
        for rot in 0..records.len().max(1) {
            let mut c: Vec<Tree> = records.clone();
            c.rotate_left(rot % records.len());
            c.truncate(cdepth);
            for pos in positions {
                let mut m0 = M::default();
                m0.c = c.clone();
                m0.i = vec![pos, 77];
                m0.b = vec![true];
                exec_case(ctx, &mut real, "LIST.REMOVE", &m0, |_, _, _| None);
                exec_case(ctx, &mut real, "LIST.GET", &m0, |m0, g, _| {
                    if g.c != m0.c {
                        return Some(("get-moves-record".into(), "LIST.GET changed the CODE stack".into()));
                    }
                    None
                });
                for n in ns {
                    let mut m1 = m0.clone();
                    m1.i = vec![n, pos, 77];
                    for name in ["LIST.BVAL", "LIST.IVAL", "LIST.FVAL"] {
                        exec_case(ctx, &mut real, name, &m1, |_, _, _| None);
                    }
                }
            }
            if cdepth == 0 {
                break;
            }
        }
    }
    // the stack-id constants the id vectors are made of: T.ID pushes the id of its own stack
    for name in ["BOOLEAN.ID", "BOOLVECTOR.ID", "CODE.ID", "EXEC.ID", "FLOAT.ID", "FLOATVECTOR.ID", "INTEGER.ID", "INTVECTOR.ID", "NAME.ID"] {
        let mut m0 = M::default();
        m0.i = vec![77];
        exec_case(ctx, &mut real, name, &m0, |_, _, _| None);
        // composition: an id vector built from T.ID, handed to LIST.ADD, takes from stack T and nothing else
        let mut m1 = base_full();
        m1.e = vec![Tree::ins(name), Tree::I(1), Tree::ins("INTVECTOR.FROMINT"), Tree::ins("LIST.ADD")];
        let id = match ctx.take() {
            Some(id) => id,
            None => continue,
        };
        ctx.transitions += 1;
        let before = m1.clone();
        let fin = run_to_quiescence(&mut real, &m1, 16);
        let (okey, v) = match fin {
            None => ("did-not-finish".to_string(), Verdict::fail(name, "composition", "T.ID 1 INTVECTOR.FROMINT LIST.ADD did not finish".into())),
            Some(g) => {
                let t = crate::foot::stack_type(name.split('.').next().unwrap()).unwrap().0;
                let mut want = before.clone();
                want.e.clear();
                let popped: Tree = match t {
                    Comp::B => Tree::B(want.b.remove(0)),
                    Comp::BV => Tree::BV(want.bv.remove(0)),
                    Comp::C => want.c.remove(0),
                    Comp::E => Tree::L(vec![]), // EXEC is empty when LIST.ADD runs: nothing to take
                    Comp::F => Tree::F(want.f.remove(0)),
                    Comp::FV => Tree::FV(want.fv.remove(0)),
                    Comp::I => Tree::I(want.i.remove(0)),
                    Comp::IV => Tree::IV(want.iv.remove(0)),
                    Comp::N => Tree::Name(want.n.remove(0)),
                    _ => unreachable!(),
                };
                let rec = if t == Comp::E { Tree::L(vec![]) } else { Tree::L(vec![popped]) };
                want.c.insert(0, rec);
                let d = want.diff(&g);
                if d.is_empty() {
                    (g.key(), Verdict::Pass)
                } else {
                    (g.key(), Verdict::fail(name, "composition", format!("differs in {:?}: {{{}}} expected {{{}}}", d, g.key(), want.key())))
                }
            }
        };
        ctx.record(id, &okey, v, || format!("( {} 1 INTVECTOR.FROMINT LIST.ADD ) on a populated state", name));
    }
}

pub fn run(ctx: &mut Ctx) {
    match ctx.family.as_str() {
        "addset" => add_set(ctx),
        "access" => access(ctx),
        f => panic!("unknown family {}", f),
    }
}
