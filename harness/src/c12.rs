//! C12 / C13 — the random generators, explored exhaustively over *scripted RNG
//! answers*: every call site's draws are answered from a script (hook H2/H3);
//! draw j defaults to a fixed sequence, a *deviation* replaces one answer by a
//! value of a grid that yields every outcome k of every `gen_range(0..n)`, n <= 12,
//! in one draw. All scripts with <= d deviations are run (CHESS-style iterative
//! bounding over environment answers). Nothing is sampled.

use crate::core::{guarded, panic_class, step_once, with_instr, Ctx, Outcome, Real, Verdict};
use crate::model::{build, tree_of, Tree, M};
use pushr::push::random::CodeGenerator;
use rand::Rng;
use std::collections::BTreeSet;

pub fn farey_grid(nmax: u64) -> Vec<u32> {
    let mut s = BTreeSet::new();
    for n in 1..=nmax {
        for k in 0..n {
            let v = (k * (1u64 << 32) + n - 1) / n; // ceil(k * 2^32 / n)
            s.insert(v as u32);
        }
    }
    s.insert(u32::MAX); // lands in rand's rejection zone for most ranges: exercises the redraw path
    s.into_iter().collect()
}
pub fn reduced_grid() -> Vec<u32> {
    vec![0, 0x8000_0000, 0x5555_5556, 0xAAAA_AAAB, u32::MAX]
}

/// the grid's claim, checked on this build of rand: answer ceil(k*2^32/n) makes gen_range(0..n) return k in one draw
pub fn grid_self_check() -> Result<(), String> {
    for n in 1..=12u64 {
        for k in 0..n {
            let v = ((k * (1u64 << 32) + n - 1) / n) as u32;
            pushr::push::verif::install_script(vec![v, v], 4);
            let mut r = pushr::push::verif::rng(rand::thread_rng());
            let a: i32 = r.gen_range(0..n as i32);
            let log1 = pushr::push::verif::clear_script();
            pushr::push::verif::install_script(vec![v, v], 4);
            let mut r = pushr::push::verif::rng(rand::thread_rng());
            let b: usize = r.gen_range(0..n as usize);
            let log2 = pushr::push::verif::clear_script();
            if a as u64 != k || b as u64 != k || log1.len() != 1 || log2.len() != 1 {
                return Err(format!("grid answer for k={} n={} gives i32 {} ({} draws), usize {} ({} draws)", k, n, a, log1.len(), b, log2.len()));
            }
        }
    }
    Ok(())
}

pub struct RunOut {
    pub log: Vec<u32>,
    pub okey: String,
    pub verdict: Verdict,
    pub nontrivial: bool,
}

/// Runs `f` under the script; a draw beyond the horizon is reported as a hang.
pub fn scripted<T>(answers: &[u32], horizon: usize, f: impl FnOnce() -> T) -> (Result<T, String>, Vec<u32>) {
    pushr::push::verif::install_script(answers.to_vec(), horizon);
    let r = guarded(f);
    let log = pushr::push::verif::clear_script();
    (r, log)
}

// ---------------------------------------------------------------------------
// C12

fn leaves(t: &Tree, out: &mut Vec<Tree>) {
    match t {
        Tree::L(items) => items.iter().for_each(|x| leaves(x, out)),
        other => out.push(other.clone()),
    }
}

fn check_item(ctx: &mut Ctx, t: &Tree, instrs: &[String], m: &M) -> Option<(String, String)> {
    let mut ls = vec![];
    leaves(t, &mut ls);
    for l in ls {
        match l {
            Tree::Ins(n) => {
                ctx.sometimes("leaf:instruction");
                let ok = if instrs.is_empty() { n == "NOOP" } else { instrs.contains(&n) };
                if !ok {
                    return Some(("leaf-instruction".into(), format!("instruction {} is not in the supplied list", n)));
                }
            }
            Tree::B(b) => ctx.sometimes(if b { "leaf:TRUE" } else { "leaf:FALSE" }),
            Tree::I(_) => ctx.sometimes("leaf:integer"),
            Tree::F(f) => {
                ctx.sometimes("leaf:float");
                if !(f >= 0.0 && f < 1.0) {
                    return Some(("leaf-float".into(), format!("float {} outside [0,1)", f)));
                }
            }
            Tree::Name(n) => {
                ctx.sometimes("leaf:name");
                if !m.bindings.is_empty() && m.cfg.new_erc_name_probability == 0.0 && !m.bindings.contains_key(&n) {
                    return Some(("leaf-name".into(), format!("name {} is not bound although new names are disabled", n)));
                }
                if m.bindings.contains_key(&n) {
                    ctx.sometimes("leaf:bound-name");
                } else {
                    ctx.sometimes("leaf:new-name");
                }
            }
            other => return Some(("leaf-kind".into(), format!("unexpected leaf {}", other.key()))),
        }
    }
    None
}

fn configs() -> Vec<(String, Vec<String>, M)> {
    let mut out = vec![];
    let lists: Vec<(&str, Vec<String>)> = vec![("none", vec![]), ("noop", vec!["NOOP".to_string()]), ("ab", vec!["INTEGER.+".to_string(), "EXEC.DUP".to_string()])];
    for (ln, list) in lists {
        for nb in 0..=2usize {
            for p in [0.0f32, 0.5, 1.0] {
                if nb == 0 && p != 0.5 {
                    continue;
                }
                let mut m = M::default();
                if nb >= 1 {
                    m.bindings.insert("X".into(), Tree::I(1));
                }
                if nb >= 2 {
                    m.bindings.insert("Y".into(), Tree::L(vec![Tree::I(2)]));
                }

                m.cfg.new_erc_name_probability = p;
                out.push((format!("list={} bindings={} pnew={}", ln, nb, p), list.clone(), m));
            }
        }
        // a different set of bound names of the same size, then the first one again (new names disabled, so that
        // every name leaf must be one of the CURRENT bindings)
        for (tag, bound) in [("Z", "Z"), ("X-again", "X")] {
            let mut m = M::default();
            m.bindings.insert(bound.into(), Tree::I(3));
            m.cfg.new_erc_name_probability = 0.0;
            out.push((format!("list={} bindings={{{}}} pnew=0", ln, tag), list.clone(), m));
        }
    }
    out
}

pub fn c12_sized(ctx: &mut Ctx) {
    if let Err(e) = grid_self_check() {
        ctx.caps.push(format!("GRID SELF-CHECK FAILED: {}", e));
        let id = ctx.next_id;
        ctx.record(id, "grid", Verdict::fail("harness", "grid-self-check", e), || "grid".into());
        return;
    }
    let full = farey_grid(12);
    let red = reduced_grid();
    let nmax = if ctx.tier_thorough { 10 } else { 7 };
    let mut real = Real::new();
    let registry = real.names();
    let mut cfgs = configs();
    // the full registry as instruction list, once
    let mut mfull = M::default();
    mfull.bindings.insert("X".into(), Tree::I(1));
    cfgs.push(("list=registry bindings=1 pnew=0.001".into(), registry, mfull));
    for (label, list, m) in cfgs.iter() {
        for n in 1..=nmax {
            let icache = pushr::push::instructions::InstructionCache::new(list.clone());
            let list2 = list.clone();
            let m2 = m.clone();
            let lab = format!("random_code_with_size n={} {}", n, label);
            let mut realref = &mut real;
            // quick: <= 1 deviation over the full grid, <= 2 over the reduced grid;
            // thorough: <= 2 full for n <= 4, <= 3 reduced for n <= 5
            let d1 = if ctx.tier_thorough && n <= 4 { 2 } else { 1 };
            let d2 = if ctx.tier_thorough && n <= 5 { 3 } else { 2 };
            judged_pass(ctx, &lab, &full, d1, &red, d2, &mut |ctx2, script| {
                let (r, log) = scripted(script, 4000, || {
                    let st = build(&m2);
                    tree_of(&CodeGenerator::random_code_with_size(&st, &icache, n))
                });
                match r {
                    Err(p) => RunOut { log, okey: panic_class(&p), verdict: Verdict::fail("random_code_with_size", &panic_class(&p), p), nontrivial: false },
                    Ok(t) => {
                        let mut v = Verdict::Pass;
                        if t.points() != n {
                            v = Verdict::fail("random_code_with_size", "size", format!("requested {} points, got {} in {}", n, t.points(), t.key()));
                        } else if let Some((c, d)) = check_item(ctx2, &t, &list2, &m2) {
                            v = Verdict::fail("random_code_with_size", &c, d);
                        } else if let Some((c, d)) = runs_and_prints(&mut realref, &t, list2.len() <= 4) {
                            v = Verdict::fail("generated-program", &c, d);
                        }
                        if let Tree::L(items) = &t {
                            ctx2.sometimes(&format!("list-of-{}", items.len().min(6)));
                        }
                        RunOut { log, okey: t.key(), verdict: v, nontrivial: true }
                    }
                }
            });
        }
    }
    // size ladder: requests far above the enumerated range (around 16, 32, 64, 100, 256, 512), default answers
    // plus one deviation on each of the first 96 draws
    {
        let list = vec!["INTEGER.+".to_string(), "EXEC.DUP".to_string()];
        let mut m = M::default();
        m.bindings.insert("X".into(), Tree::I(1));
        for n in [15usize, 16, 17, 31, 33, 64, 65, 100, 101, 255, 256, 257, 258, 300, 513, 700] {
            let icache = pushr::push::instructions::InstructionCache::new(list.clone());
            let list2 = list.clone();
            let m2 = m.clone();
            let lab = format!("random_code_with_size n={} (ladder)", n);
            let mut realref = &mut real;
            judged_pass(ctx, &lab, &red, 1, &red, 0, &mut |ctx2, script| {
                let (r, log) = scripted(script, 100_000, || {
                    let st = build(&m2);
                    tree_of(&CodeGenerator::random_code_with_size(&st, &icache, n))
                });
                match r {
                    Err(p) => RunOut { log, okey: panic_class(&p), verdict: Verdict::fail("random_code_with_size", &panic_class(&p), p), nontrivial: false },
                    Ok(t) => {
                        let mut v = Verdict::Pass;
                        if t.points() != n {
                            v = Verdict::fail("random_code_with_size", "size", format!("requested {} points, got {}", n, t.points()));
                        } else if let Some((c, d)) = check_item(ctx2, &t, &list2, &m2) {
                            v = Verdict::fail("random_code_with_size", &c, d);
                        } else if let Some((c, d)) = runs_and_prints(&mut realref, &t, false) {
                            v = Verdict::fail("generated-program", &c, d);
                        }
                        RunOut { log, okey: format!("{}", t.points()), verdict: v, nontrivial: true }
                    }
                }
            });
        }
    }
    require_sometimes(ctx, &["leaf:TRUE", "leaf:FALSE", "leaf:integer", "leaf:float", "leaf:instruction", "leaf:bound-name", "leaf:new-name", "list-of-1", "list-of-2", "list-of-3"]);
}

/// C01 / C11 clauses for a generated item: it executes (bounded run) and prints/parses/prints stably
fn runs_and_prints(real: &mut &mut Real, t: &Tree, execute: bool) -> Option<(String, String)> {
    let mut m = M::default();
    m.e = vec![t.clone()];
    let mut cur = m;
    // programs over the full registry contain allocation-sizing instructions next to 32-bit random
    // integers: executing those is outside C01's resource envelope (C15), so they are only printed
    for _ in 0..(if execute { 60 } else { 0 }) {
        if cur.e.is_empty() {
            break;
        }
        match step_once(real, &cur) {
            Outcome::Ok(g) => cur = g,
            Outcome::Panic(p) => return Some((panic_class(&p), format!("executing the generated program {}: {}", t.render(), p))),
        }
        if cur.e.len() > 200 {
            break;
        }
    }
    // print -> parse -> print
    let text = match guarded(|| crate::model::item_of(t).to_string()) {
        Ok(s) => s,
        Err(p) => return Some((panic_class(&p), p)),
    };
    // names produced by the `names` crate and instruction names parse back as what they were; floats at printed precision
    match crate::c03::parse_real(real, &M::default(), &text) {
        Outcome::Panic(p) => Some((panic_class(&p), format!("parsing {:?}: {}", text, p))),
        Outcome::Ok(g) => {
            let again = g.e.iter().map(crate::refmodel::display).collect::<Vec<_>>().join(" ");
            if again != text {
                Some(("reprint".into(), format!("printed {:?}, parsed and printed again {:?}", text, again)))
            } else {
                None
            }
        }
    }
}

/// two passes (<= d1 deviations over the full grid, <= d2 over the reduced grid); the run closure gets the context
pub fn judged_pass(ctx: &mut Ctx, label: &str, full: &[u32], d1: usize, red: &[u32], d2: usize, run: &mut dyn FnMut(&mut Ctx, &[u32]) -> RunOut) {
    for (grid, dev, tag) in [(full, d1, "full-grid"), (red, d2, "reduced-grid")] {
        fn go(ctx: &mut Ctx, label: &str, grid: &[u32], script: Vec<u32>, used: usize, from: usize, max_dev: usize, run: &mut dyn FnMut(&mut Ctx, &[u32]) -> RunOut) {
            let id = ctx.next_id;
            ctx.next_id += 1;
            ctx.mark_case(id);
            let mine = match ctx.only {
                Some(o) => o == id,
                None => (id as usize) % ctx.nshards == ctx.shard,
            };
            let out = run(ctx, &script);
            ctx.max_depth = ctx.max_depth.max(used as u64);
            let log = out.log.clone();
            if mine {
                ctx.transitions += 1;
                ctx.states += 1;
                if out.nontrivial {
                    ctx.nontrivial_mark(&out.okey);
                }
                let sdesc = format!("{} script={:?} ({} deviations, {} draws)", label, &script, used, log.len());
                ctx.record(id, &out.okey, out.verdict, || sdesc);
            }
            if used >= max_dev {
                return;
            }
            // deviations are placed on the first 96 draws of an execution (legitimate executions of the
            // bounded configurations draw far fewer times; a longer one is reported, not multiplied)
            let upto = log.len().min(96);
            if log.len() > 96 && !ctx.caps.iter().any(|c| c.starts_with("draw positions")) {
                ctx.caps.push("draw positions beyond the 96th are not deviated".to_string());
            }
            for j in from..upto {
                for v in grid {
                    if *v == log[j] {
                        continue;
                    }
                    let mut s2: Vec<u32> = log[..j].to_vec();
                    s2.push(*v);
                    go(ctx, label, grid, s2, used + 1, j + 1, max_dev, run);
                }
            }
        }
        let lab = format!("{} [{} <= {} deviations]", label, tag, dev);
        go(ctx, &lab, grid, vec![], 0, 0, dev, run);
    }
}

/// reachability: every leaf kind and several list shapes were produced by some explored script
fn require_sometimes(ctx: &mut Ctx, wanted: &[&str]) {
    let id = ctx.next_id;
    ctx.next_id += 1;
    if !ctx.only.map(|o| o == id).unwrap_or(id as usize % ctx.nshards == ctx.shard) {
        return;
    }
    let missing: Vec<String> = wanted.iter().filter(|w| !ctx.sometimes.contains_key(**w)).map(|w| w.to_string()).collect();
    let v = if missing.is_empty() { Verdict::Pass } else { Verdict::fail("generator", "unreachable-kind", format!("never produced by any explored script: {:?}", missing)) };
    ctx.record(id, "reachability", v, || "reachability of leaf kinds / shapes over all explored scripts".into());
}

pub fn c12_bounded(ctx: &mut Ctx) {
    let full = farey_grid(12);
    let red = reduced_grid();
    let mut real = Real::new();
    let mmax = if ctx.tier_thorough { 10 } else { 8 };
    let list = vec!["NOOP".to_string(), "INTEGER.+".to_string()];
    // random_code(max_points)
    for mp in 0..=mmax {
        let icache = pushr::push::instructions::InstructionCache::new(list.clone());
        let mut m = M::default();
        m.bindings.insert("X".into(), Tree::I(1));
        let lab = format!("random_code max_points={}", mp);
        judged_pass(ctx, &lab, &full, 1, &red, 2, &mut |ctx2, script| {
            let (r, log) = scripted(script, 4000, || {
                let st = build(&m);
                CodeGenerator::random_code(&st, &icache, mp).map(|i| tree_of(&i))
            });
            match r {
                Err(p) => RunOut { log, okey: panic_class(&p), verdict: Verdict::fail("random_code", &panic_class(&p), p), nontrivial: false },
                Ok(t) => {
                    let v = match &t {
                        None if mp < 2 => Verdict::Pass,
                        None => Verdict::fail("random_code", "none", format!("bound {} >= 2 but nothing was generated", mp)),
                        Some(_) if mp < 2 => Verdict::fail("random_code", "some", format!("bound {} < 2 but something was generated", mp)),
                        Some(t) => {
                            let s = t.points();
                            ctx2.sometimes(&format!("bounded-size-{}-of-{}", s, mp));
                            if s >= 1 && s + 1 <= mp {
                                Verdict::Pass
                            } else {
                                Verdict::fail("random_code", "size-bound", format!("bound {}: generated {} points", mp, s))
                            }
                        }
                    };
                    RunOut { log, okey: format!("{:?}", t.map(|x| x.key())), verdict: v, nontrivial: mp >= 2 }
                }
            }
        });
    }
    // decompose
    for total in 1..=mmax {
        let lab = format!("decompose {}", total);
        judged_pass(ctx, &lab, &full, 2, &red, 3, &mut |ctx2, script| {
            let (r, log) = scripted(script, 4000, || {
                let mut v = vec![];
                CodeGenerator::decompose(&mut v, total);
                v
            });
            match r {
                Err(p) => RunOut { log, okey: panic_class(&p), verdict: Verdict::fail("decompose", &panic_class(&p), p), nontrivial: false },
                Ok(parts) => {
                    ctx2.sometimes(&format!("decompose-into-{}", parts.len().min(6)));
                    let v = if parts.iter().any(|p| *p == 0) || parts.iter().sum::<usize>() != total {
                        Verdict::fail("decompose", "parts", format!("{} decomposed into {:?}", total, parts))
                    } else {
                        Verdict::Pass
                    };
                    RunOut { log, okey: format!("{:?}", parts), verdict: v, nontrivial: true }
                }
            }
        });
    }
    // CODE.RAND by name: INTEGER operand x max_points_in_random_expressions
    for n in [i32::MIN, -100, -27, -9, -3, -1, 0, 1, 2, 3, 9, 26, 100, i32::MAX] {
        for maxp in [0, 1, 2, 6, 25, -25] {
            let mut m = M::default();
            m.i = vec![n, 77];
            m.cfg.max_points_in_random_expressions = maxp;
            m.bindings.insert("X".into(), Tree::I(1));
            let lab = format!("CODE.RAND n={} max={}", n, maxp);
            let realref = &mut real;
            judged_pass(ctx, &lab, &full, 1, &red, if ctx.tier_thorough { 2 } else { 1 }, &mut |ctx2, script| {
                pushr::push::verif::install_script(script.to_vec(), 4000);
                let out = step_scripted(realref, &with_instr(&m, "CODE.RAND"), script);
                let (outcome, log) = out;
                let _ = ctx2;
                match outcome {
                    Outcome::Panic(p) => RunOut { log, okey: panic_class(&p), verdict: Verdict::fail("CODE.RAND", &panic_class(&p), p), nontrivial: false },
                    Outcome::Ok(g) => {
                        let lim = std::cmp::min((n as i64).abs(), (maxp as i64).abs());
                        let mut v = Verdict::Pass;
                        if g.i != vec![77] {
                            v = Verdict::fail("CODE.RAND", "operand", format!("INTEGER is {:?}", g.i));
                        } else if g.c.len() > 1 {
                            v = Verdict::fail("CODE.RAND", "pushes", "more than one item pushed".into());
                        } else if let Some(t) = g.c.first() {
                            if (t.points() as i64) > lim || lim < 2 {
                                v = Verdict::fail("CODE.RAND", "size-bound", format!("|n| = {}, |max| = {}: generated {} points", (n as i64).abs(), (maxp as i64).abs(), t.points()));
                            }
                        } else if lim >= 2 {
                            v = Verdict::fail("CODE.RAND", "none", format!("limit {} but nothing generated", lim));
                        }
                        RunOut { log, okey: g.key(), verdict: v, nontrivial: !g.c.is_empty() }
                    }
                }
            });
        }
    }
}

/// one interpreter step under an explicit RNG script; returns the outcome and the draw log
pub fn step_scripted(real: &mut Real, m0: &M, script: &[u32]) -> (Outcome, Vec<u32>) {
    let Real { iset, icache } = real;
    let r = guarded(|| {
        let mut st = build(m0);
        pushr::push::verif::install_clock(0);
        pushr::push::verif::install_script(script.to_vec(), 4000);
        pushr::push::interpreter::PushInterpreter::step(&mut st, iset, icache);
        crate::model::observe(&st)
    });
    let log = pushr::push::verif::clear_script();
    pushr::push::verif::clear_clock();
    match r {
        Ok(m) => (Outcome::Ok(m), log),
        Err(p) => (Outcome::Panic(p), log),
    }
}

pub fn run(ctx: &mut Ctx) {
    let (p, f) = (ctx.prop.clone(), ctx.family.clone());
    match (p.as_str(), f.as_str()) {
        ("C12", "sized") => c12_sized(ctx),
        ("C12", "bounded") => c12_bounded(ctx),
        ("C13", f) => crate::c13::run_family(ctx, f),
        (p, f) => panic!("unknown family {} {}", p, f),
    }
    ctx.extra.push(("deviation_bound_completed".into(), crate::core::J::Int(ctx.max_depth as i64)));
}
