//! C07 — names: definition, lookup and quoting for every type.
//! Explicit-state BFS over program tokens executed one at a time from the empty
//! state; after every transition the real state (bindings, quote flag, all stacks)
//! must equal the reference interpreter's.

use crate::core::{live_history, panic_class, step_once, Ctx, LiveStep, Outcome, Real, Verdict};
use crate::model::{Comp, Tree, M};
use crate::refmodel::ref_step;
use std::collections::{HashSet, VecDeque};

#[derive(Clone, Debug)]
enum Act {
    /// put this token on top of EXEC and execute one step
    Tok(Tree),
    /// execute one step of whatever is pending on EXEC
    Step,
}

fn values(t: Comp) -> (Tree, Tree) {
    match t {
        Comp::B => (Tree::B(true), Tree::B(false)),
        Comp::I => (Tree::I(1), Tree::I(2)),
        // equal to three decimals (printed alike), different values
        Comp::F => (Tree::F(1.0001), Tree::F(1.0004)),
        Comp::BV => (Tree::BV((0..40).map(|k| k % 3 == 0).collect()), Tree::BV(vec![])),
        Comp::IV => (Tree::IV((0..40).collect()), Tree::IV(vec![])),
        Comp::FV => (Tree::FV((0..40).map(|k| k as f32 + 0.5).collect()), Tree::FV(vec![])),
        _ => unreachable!(),
    }
}

/// a 61-point body (three sublists of 19 NOOPs): larger than max-points-in-random-expressions, smaller than
/// max-points-in-program; executing it changes nothing but EXEC
fn big_body() -> Tree {
    Tree::L((0..3).map(|_| Tree::L((0..19).map(|_| Tree::ins("NOOP")).collect())).collect())
}

fn alphabet(prefix: &str, t: Comp) -> Vec<Act> {
    let mut a = vec![
        Act::Tok(Tree::name("X")),
        Act::Tok(Tree::name("Y")),
        Act::Tok(Tree::ins("NAME.QUOTE")),
        Act::Tok(Tree::ins(&format!("{}.DEFINE", prefix))),
        Act::Tok(Tree::ins("CODE.DEFINITION")),
        Act::Tok(Tree::ins(&format!("{}.POP", prefix))),
        Act::Tok(Tree::ins("NAME.POP")),
        Act::Step,
    ];
    match t {
        Comp::C => {
            // values reach the CODE stack through CODE.QUOTE <item>
            a.push(Act::Tok(Tree::L(vec![Tree::ins("CODE.QUOTE"), Tree::I(7)])));
            a.push(Act::Tok(Tree::L(vec![Tree::ins("CODE.QUOTE"), Tree::L(vec![Tree::I(8), Tree::name("Y")])])));
            a.push(Act::Tok(Tree::L(vec![Tree::ins("CODE.QUOTE"), big_body()])));
            // a bare name as value: aliases, self-aliases, alias cycles
            a.push(Act::Tok(Tree::L(vec![Tree::ins("CODE.QUOTE"), Tree::name("Y")])));
            a.push(Act::Tok(Tree::L(vec![Tree::ins("CODE.QUOTE"), Tree::name("X")])));
            // two bodies that print alike ({:.3}) but differ
            a.push(Act::Tok(Tree::L(vec![Tree::ins("CODE.QUOTE"), Tree::L(vec![Tree::F(1.0001), Tree::name("Y")])])));
            a.push(Act::Tok(Tree::L(vec![Tree::ins("CODE.QUOTE"), Tree::L(vec![Tree::F(1.0004), Tree::name("Y")])])));
        }
        Comp::E => {
            // EXEC.DEFINE takes the next item on EXEC: supply it together with the instruction
            a.retain(|x| !matches!(x, Act::Tok(Tree::Ins(n)) if n == "EXEC.DEFINE"));
            a.push(Act::Tok(Tree::L(vec![Tree::ins("EXEC.DEFINE"), Tree::I(7)])));
            a.push(Act::Tok(Tree::L(vec![Tree::ins("EXEC.DEFINE"), Tree::L(vec![Tree::I(8), Tree::name("Y")])])));
            a.push(Act::Tok(Tree::L(vec![Tree::ins("EXEC.DEFINE"), big_body()])));
            a.push(Act::Tok(Tree::L(vec![Tree::ins("EXEC.DEFINE"), Tree::name("Y")])));
            a.push(Act::Tok(Tree::L(vec![Tree::ins("EXEC.DEFINE"), Tree::name("X")])));
            a.push(Act::Tok(Tree::L(vec![Tree::ins("EXEC.DEFINE"), Tree::F(1.0001)])));
            a.push(Act::Tok(Tree::L(vec![Tree::ins("EXEC.DEFINE"), Tree::F(1.0004)])));
        }
        _ => {
            let (v1, v2) = values(t);
            a.push(Act::Tok(v1));
            a.push(Act::Tok(v2));
            if t == Comp::F {
                a.push(Act::Tok(Tree::F(f32::NAN)));
            }
        }
    }
    a
}

fn too_big(m: &M) -> bool {
    m.e.len() > 4 || m.n.len() > 3 || m.c.len() > 3 || m.b.len() > 3 || m.i.len() > 3 || m.f.len() > 3 || m.bv.len() > 3 || m.iv.len() > 3 || m.fv.len() > 3
}

fn bfs(ctx: &mut Ctx, real: &mut Real, label: &str, acts: &[Act], depth_max: usize) {
    let mut seen: HashSet<String> = HashSet::new();
    let mut frontier: VecDeque<(M, Vec<usize>)> = VecDeque::new();
    seen.insert(M::default().key());
    frontier.push_back((M::default(), vec![]));
    while let Some((m, hist)) = frontier.pop_front() {
        ctx.states += 1;
        ctx.max_depth = ctx.max_depth.max(hist.len() as u64);
        if hist.len() >= depth_max {
            continue;
        }
        for (ai, act) in acts.iter().enumerate() {
            let mut before = m.clone();
            match act {
                Act::Tok(t) => before.e.insert(0, t.clone()),
                Act::Step => {
                    if before.e.is_empty() {
                        continue;
                    }
                }
            }
            let (id, rec) = ctx.take_exec();
            ctx.transitions += 1;
            let out = step_once(real, &before);
            let mut exp = before.clone();
            let mut log = vec![];
            ref_step(&mut exp, &mut log, false);
            let (verdict, okey) = match &out {
                Outcome::Panic(p) => (Verdict::fail(label, &panic_class(p), p.clone()), panic_class(p)),
                Outcome::Ok(g) => {
                    let d = exp.diff(g);
                    let k = g.key();
                    if d.is_empty() {
                        (Verdict::Pass, k)
                    } else {
                        // a DEFINE whose value is missing may or may not have consumed the name (C10 rule)
                        let site = match act {
                            Act::Tok(Tree::Ins(n)) => n.clone(),
                            _ => label.to_string(),
                        };
                        let tolerated = matches!(act, Act::Tok(Tree::Ins(n)) if n.ends_with(".DEFINE") || n == "CODE.DEFINITION") && crate::refmodel::doc_verdict(&site, &m, &out).is_ok();
                        if tolerated {
                            (Verdict::Pass, k)
                        } else {
                            (Verdict::fail(&site, &format!("mismatch:{:?}", d), format!("documented {{{}}} observed {{{}}}", exp.key(), g.key())), k)
                        }
                    }
                }
            };
            if let Outcome::Ok(g) = &out {
                if g.key() != m.key() {
                    ctx.nontrivial_mark(&format!("{:?}|{}", act, okey));
                }
            }
            // the same history on ONE live state object (built once, never rebuilt): must arrive at the same state
            let verdict = match (&verdict, &out) {
                (Verdict::Pass, Outcome::Ok(g)) => {
                    let mut steps: Vec<LiveStep> = hist.iter().map(|i| acts[*i].clone()).chain(std::iter::once(act.clone())).map(|a| LiveStep { pre: Box::new(|_| {}), push: match a { Act::Tok(t) => Some(t), Act::Step => None } }).collect();
                    let live = live_history(real, &M::default(), &steps);
                    steps.clear();
                    match live {
                        Outcome::Ok(l) if l.key() == g.key() => Verdict::Pass,
                        Outcome::Ok(l) => Verdict::fail(label, "live-history-differs", format!("executed on one live state the history ends in {{{}}}, step by step from rebuilt states in {{{}}}", l.key(), g.key())),
                        Outcome::Panic(p) => Verdict::fail(label, &panic_class(&p), format!("live history: {}", p)),
                    }
                }
                _ => verdict,
            };
            let names: Vec<String> = hist.iter().map(|i| render(&acts[*i])).collect();
            ctx.record_if(rec, id, &okey, verdict, || format!("{} history=[{}] then {}", label, names.join(" ; "), render(act)));
            if let Outcome::Ok(g) = out {
                if too_big(&g) {
                    continue;
                }
                let k = g.key();
                if !seen.contains(&k) {
                    seen.insert(k);
                    let mut h = hist.clone();
                    h.push(ai);
                    frontier.push_back((g, h));
                }
            }
        }
    }
    ctx.caps.push(format!("{}: depth bound {}", label, depth_max));
}

fn render(a: &Act) -> String {
    match a {
        Act::Tok(t) => t.render(),
        Act::Step => "<step>".to_string(),
    }
}

/// redefine — "a later definition replaces an earlier one", directly: for every type and every ordered pair (v1, v2)
/// of a value pool that contains near-equal and print-alike twins, the program defines X as v1, redefines it as v2, then
/// uses X and asks for its definition; every step is judged in the state reached (as in C06 conform).
fn redefine(ctx: &mut Ctx, real: &mut Real) {
    let body = |f: f32| Tree::L(vec![Tree::F(f), Tree::ins("FLOAT.+")]);
    let code_pool = vec![Tree::I(7), Tree::L(vec![Tree::F(1.0001), Tree::name("Y")]), Tree::L(vec![Tree::F(1.0004), Tree::name("Y")]), body(0.2501), body(0.2499), Tree::name("Y"), Tree::FV(vec![1.0001, 2.0]), Tree::FV(vec![1.0004, 2.0])];
    let pools: Vec<(&str, Vec<Tree>)> = vec![
        ("BOOLEAN", vec![Tree::B(true), Tree::B(false)]),
        ("INTEGER", vec![Tree::I(1), Tree::I(2), Tree::I(-2147483648)]),
        ("FLOAT", vec![Tree::F(1.0001), Tree::F(1.0004), Tree::F(0.0), Tree::F(-0.0), Tree::F(f32::NAN)]),
        ("BOOLVECTOR", vec![Tree::BV(vec![true, false]), Tree::BV(vec![true, true]), Tree::BV(vec![])]),
        ("INTVECTOR", vec![Tree::IV(vec![1, 2]), Tree::IV(vec![1, 3]), Tree::IV(vec![])]),
        ("FLOATVECTOR", vec![Tree::FV(vec![1.0001]), Tree::FV(vec![1.0004]), Tree::FV(vec![1.0001, 2.0])]),
        ("CODE", code_pool.clone()),
        ("EXEC", code_pool),
    ];
    let mut pop = crate::alpha::populated();
    pop.e.clear();
    let bases = [("empty", M::default()), ("populated", pop)];
    for (prefix, pool) in &pools {
        for v1 in pool {
            for v2 in pool {
                let def = |v: &Tree| -> Vec<Tree> {
                    match *prefix {
                        "CODE" => vec![Tree::ins("CODE.QUOTE"), v.clone(), Tree::ins("CODE.DEFINE")],
                        "EXEC" => vec![Tree::ins("EXEC.DEFINE"), v.clone()],
                        _ => vec![v.clone(), Tree::ins(&format!("{}.DEFINE", prefix))],
                    }
                };
                let mut items = vec![Tree::name("X")];
                items.extend(def(v1));
                items.extend([Tree::ins("NAME.QUOTE"), Tree::name("X")]);
                items.extend(def(v2));
                items.extend([Tree::ins("NAME.QUOTE"), Tree::name("X"), Tree::ins("CODE.DEFINITION"), Tree::name("X")]);
                let prog = Tree::L(items);
                for (bl, base) in bases.iter() {
                    let id = match ctx.take() {
                        Some(id) => id,
                        None => continue,
                    };
                    ctx.states += 1;
                    let mut m = base.clone();
                    m.e.insert(0, prog.clone());
                    let mut verdict = Verdict::Pass;
                    let mut at = String::new();
                    for k in 0..40 {
                        if m.e.is_empty() {
                            break;
                        }
                        ctx.transitions += 1;
                        let out = crate::core::step_once(real, &m);
                        match crate::c06::judge_step(&m, &out) {
                            Verdict::Pass => {}
                            Verdict::Known(idk) => {
                                if matches!(verdict, Verdict::Pass) {
                                    verdict = Verdict::Known(idk);
                                }
                            }
                            v => {
                                at = format!(" -- at step {} in state {{{}}}", k, crate::core::trunc(&m.key(), 700));
                                verdict = v;
                                break;
                            }
                        }
                        m = match out {
                            Outcome::Ok(g) => g,
                            Outcome::Panic(_) => break,
                        };
                    }
                    let okey = format!("{}|{}", prefix, m.key());
                    ctx.nontrivial_mark(&okey);
                    ctx.record(id, &okey, verdict, || format!("{} on the {} state{}", prog.render(), bl, at));
                }
            }
        }
    }
}

pub fn run(ctx: &mut Ctx) {
    let mut real = Real::new();
    let d = if ctx.tier_thorough { 13 } else { 8 };
    let types = [("BOOLEAN", Comp::B), ("INTEGER", Comp::I), ("FLOAT", Comp::F), ("CODE", Comp::C), ("EXEC", Comp::E), ("BOOLVECTOR", Comp::BV), ("INTVECTOR", Comp::IV), ("FLOATVECTOR", Comp::FV)];
    match ctx.family.as_str() {
        "cross" => {
            // two types at once: a name bound for one type must not leak into the other
            let mut acts = alphabet("INTEGER", Comp::I);
            acts.push(Act::Tok(Tree::ins("FLOAT.DEFINE")));
            acts.push(Act::Tok(Tree::F(2.5)));
            acts.push(Act::Tok(Tree::ins("CODE.DEFINE")));
            acts.push(Act::Tok(Tree::L(vec![Tree::ins("CODE.QUOTE"), Tree::L(vec![Tree::name("X")])])));
            bfs(ctx, &mut real, "cross", &acts, if ctx.tier_thorough { 9 } else { 6 });
        }
        "redefine" => redefine(ctx, &mut real),
        fam => {
            let (prefix, t) = types.iter().find(|(p, _)| *p == fam).copied().unwrap_or_else(|| panic!("unknown family {}", fam));
            let acts = alphabet(prefix, t);
            // CODE and EXEC have the larger alphabets (big and print-alike bodies): a smaller depth in the thorough tier
            let d = if matches!(t, Comp::C | Comp::E) { if ctx.tier_thorough { 9 } else { 7 } } else { d };
            bfs(ctx, &mut real, prefix, &acts, d);
        }
    }
    ctx.fixpoint = Some(false);
}
