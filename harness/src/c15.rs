//! C15 — a step's time and memory are bounded by the state, not by operand magnitude.
//! (ladder) every instruction with INTEGER operands x every operand position x a magnitude
//! ladder, one step each under an armed allocation budget; the verdict is taken from
//! deterministic allocation counters (an over-budget step terminates the worker and is
//! attributed through the breadcrumb). (growers) every small program over the structure-
//! doubling alphabet run under the default limits with monitors after every step.

use crate::alpha::{frags, Alpha, Frag};
use crate::budget;
use crate::core::{guarded, panic_class, step_once, with_instr, Ctx, Outcome, Real, Verdict};
use crate::foot::foot;
use crate::model::{build, Comp, Tree, M};
use crate::treeops::trees_up_to;
use pushr::push::interpreter::PushInterpreter;
use pushr::push::item::Item;

const MIB: usize = 1 << 20;

fn ladder() -> Vec<i32> {
    // 2^24 + 2 and 2 * 10^7: beyond single-precision integer range, yet small enough that a cost linear in the
    // operand (the recorded finding) stays inside the armed budget -- anything worse than linear does not
    vec![-1, 0, 1, 2, 1000, 1_000_000, 16_777_218, 20_000_000, i32::MAX, -1_000_000, -16_777_218, i32::MIN + 1, i32::MIN]
}

fn other_operand(c: Comp, need: usize) -> Option<Frag> {
    let mut a = Alpha::tiny();
    a.floats = vec![0.5];
    a.deep = false;
    let mut v = frags(c, need.max(1), &a);
    // the last alternative is the richest non-empty one
    v.pop()
}

pub fn ladder_family(ctx: &mut Ctx) {
    let mut real = Real::new();
    // a RAND instruction sized 10^6 legitimately draws 10^6 times
    crate::core::DRAW_HORIZON.store(200_000_000, std::sync::atomic::Ordering::Relaxed);
    let names = real.names();
    let records: Vec<Tree> = (0..3).map(|k| Tree::L(vec![Tree::B(true), Tree::I(k), Tree::F(0.5)])).collect();
    for name in &names {
        let ft = match foot(name) {
            Some(f) => f,
            None => continue,
        };
        if name == "EXEC.CMD" {
            continue;
        }
        let need_i = ft.ops.iter().find(|(c, _)| *c == Comp::I).map(|(_, n)| *n).unwrap_or(0);
        if need_i == 0 {
            continue;
        }
        // two operands large at once (cooperating operands), at a magnitude where the unchanged
        // code is still cheap: encoded as position 100*p+q
        let mut cases: Vec<(usize, i32)> = vec![];
        for pos in 0..need_i {
            for rung in ladder() {
                // the scripted RNG logs every draw in this process: for RAND instructions the log itself would
                // exhaust the budget at tens of millions of draws
                if ft.random && (rung as i64).abs() > 1_000_000 && (rung as i64).abs() < 1_000_000_000 {
                    continue;
                }
                cases.push((pos, rung));
            }
        }
        for p1 in 0..need_i {
            for p2 in (p1 + 1)..need_i {
                cases.push((100 * (p1 + 1) + p2, 1000));
                cases.push((100 * (p1 + 1) + p2, 100));
            }
        }
        for (pos, rung) in cases {
            {
                let id = match ctx.take() {
                    Some(id) => id,
                    None => continue,
                };
                ctx.transitions += 1;
                ctx.states += 1;
                let mut m0 = M::default();
                for (c, n) in &ft.ops {
                    if *c == Comp::I {
                        continue;
                    }
                    if let Some(f) = other_operand(*c, *n) {
                        crate::alpha::apply(&mut m0, &f);
                    }
                }
                if name.starts_with("LIST.") && m0.c.is_empty() {
                    m0.c = records.clone();
                }
                // small, pairwise distinct, descending from the top (so that e.g. INTVECTOR.RAND gets min < max)
                m0.i = (0..need_i).map(|k| 2 + (need_i - k) as i32).collect();
                if pos >= 100 {
                    m0.i[pos / 100 - 1] = rung;
                    m0.i[pos % 100] = rung;
                } else {
                    m0.i[pos] = rung;
                }
                m0.i.push(77);
                ctx.crumb(id, &format!("{}|{}|{}", name, pos, rung));
                let before = with_instr(&m0, name);
                // one step under an armed budget: 256 MiB of additional live memory, 50 M allocations
                let t0 = std::time::Instant::now();
                let s0 = budget::snapshot();
                budget::arm(256 * MIB, 50_000_000);
                let out = step_once(&mut real, &before);
                budget::disarm();
                let s1 = budget::snapshot();
                let wall = t0.elapsed().as_secs_f64();
                let bytes = s1.bytes - s0.bytes;
                let allocs = s1.allocs - s0.allocs;
                let (okey, verdict) = match &out {
                    Outcome::Panic(p) => (panic_class(p), Verdict::fail(name, &panic_class(p), p.clone())),
                    Outcome::Ok(_) => {
                        // the state holds a handful of small items: anything beyond 64 MiB / 4 M allocations / 10 s
                        // can only come from the operand's magnitude
                        let linear = (rung as i64).unsigned_abs() as usize;
                        if (bytes > 64 * MIB || allocs > 4_000_000) && wall <= 10.0 && bytes <= 32 * linear + MIB && allocs <= 2 * linear + 1000 && crate::alpha::size_like(name) {
                            // the recorded finding as it is: the size operand is used unchecked, at a cost LINEAR in it
                            ("over-linear".to_string(), Verdict::Known("KF-C15-allocation-sized-by-operand"))
                        } else if bytes > 64 * MIB || allocs > 4_000_000 || wall > 10.0 {
                            ("over".to_string(), Verdict::fail(name, "cost-follows-operand-magnitude", format!("operand {} at INTEGER position {}: {} bytes, {} allocations, {:.2} s in one step", rung, pos, bytes, allocs, wall)))
                        } else {
                            (format!("{}|{}|{}", name, pos, if (rung as i64).abs() >= 1000 { "big" } else { "small" }), Verdict::Pass)
                        }
                    }
                };
                if (rung as i64).abs() >= 1000 {
                    ctx.nontrivial_mark(&format!("{}|{}|{}", name, pos, rung));
                }
                ctx.record(id, &okey, verdict, || format!("{} with {} at INTEGER position {} (other operands small), state {{{}}}", name, rung, pos, crate::core::trunc(&m0.key(), 300)));
            }
        }
    }
}

fn grower_atoms() -> Vec<Tree> {
    vec![
        Tree::ins("CODE.DUP"),
        Tree::ins("CODE.LIST"),
        Tree::ins("CODE.APPEND"),
        Tree::ins("CODE.CONS"),
        Tree::ins("EXEC.Y"),
        Tree::ins("EXEC.S"),
        Tree::ins("EXEC.DUP"),
        Tree::ins("CODE.QUOTE"),
        Tree::name("A"),
        Tree::ins("NAME.DUP"),
        Tree::ins("NAME.CAT"),
    ]
}

/// instructions that build a larger item out of their operands: where an item can first cross the limit
pub fn is_structure_builder(name: &str) -> bool {
    matches!(name, "CODE.LIST" | "CODE.CONS" | "CODE.APPEND" | "CODE.INSERT" | "CODE.SUBST" | "EXEC.S" | "EXEC.Y" | "LIST.ADD" | "LIST.SET")
}

pub fn growers_family(ctx: &mut Ctx) {
    let mut real = Real::new();
    let progs = trees_up_to(if ctx.tier_thorough { 5 } else { 4 }, &grower_atoms());
    ctx.extra.push(("programs".into(), crate::core::J::Int(progs.len() as i64)));
    for prog in &progs {
        let id = match ctx.take() {
            Some(id) => id,
            None => continue,
        };
        ctx.transitions += 1;
        ctx.crumb(id, &format!("program|{}", crate::core::trunc(&prog.render(), 80)));
        let mut m0 = M::default();
        m0.e = vec![prog.clone()];
        m0.c = vec![Tree::I(1)];
        m0.n = vec!["n".into()];
        let max_points = m0.cfg.max_points_in_program as usize;
        let limit = m0.cfg.eval_push_limit as usize;
        let cap = m0.cfg.growth_cap;
        let Real { iset, icache } = &mut real;
        budget::arm(1024 * MIB, 0);
        let r = guarded(|| {
            let mut st = build(&m0);
            pushr::push::verif::install_script(vec![], 100_000);
            let mut finding: Option<(String, String, String)> = None;
            let mut steps = 0usize;
            let mut biggest = 0usize;
            while steps <= limit {
                // the run loop's own limits (default configuration)
                let before = st.size();
                let top = st.exec_stack.get(0).map(|i| match i {
                    Item::InstructionMeta { name } => name.clone(),
                    Item::List { .. } => "<list>".to_string(),
                    _ => "<literal>".to_string(),
                });
                let t0 = std::time::Instant::now();
                if PushInterpreter::step(&mut st, iset, icache) {
                    break;
                }
                steps += 1;
                let site = top.unwrap_or_default();
                if t0.elapsed().as_secs_f64() > 10.0 {
                    finding = Some((site, "step-hangs".into(), "one step took more than 10 s".into()));
                    break;
                }
                // monitors
                let mut maxp = 0usize;
                for k in 0..st.code_stack.size() {
                    maxp = maxp.max(Item::size(st.code_stack.get(k).unwrap()));
                }
                for k in 0..st.exec_stack.size() {
                    maxp = maxp.max(Item::size(st.exec_stack.get(k).unwrap()));
                }
                biggest = biggest.max(maxp);
                if maxp > max_points {
                    finding = Some((site, "item-exceeds-max-points-in-program".into(), format!("after step {} an item on the CODE/EXEC stack has {} points, max-points-in-program is {}", steps, maxp, max_points)));
                    break;
                }
                // the longest single name: only an instruction that *builds* a name can make it longer
                // (a copy made by NAME.DUP is as long as its original), so the step that crosses the
                // threshold names the cause
                let mut longest = 0usize;
                for k in 0..st.name_stack.size() {
                    longest = longest.max(st.name_stack.get(k).unwrap().len());
                }
                if longest > MIB / 2 {
                    finding = Some((site, "name-bytes-grow-without-limit".into(), format!("after step {} a name on the NAME stack is {} bytes long", steps, longest)));
                    break;
                }
                if st.size() > before + cap {
                    break; // GrowthCapExceeded
                }
            }
            (finding, steps, biggest)
        });
        budget::disarm();
        pushr::push::verif::clear_script();
        let (okey, verdict) = match r {
            Err(p) => (panic_class(&p), Verdict::fail("growers", &panic_class(&p), p)),
            Ok((None, steps, biggest)) => (format!("ok steps={} biggest={}", steps, biggest), Verdict::Pass),
            Ok((Some((site, class, detail)), _, _)) => {
                let known = (class == "item-exceeds-max-points-in-program" && is_structure_builder(&site)) || (class == "name-bytes-grow-without-limit" && site == "NAME.CAT");
                if known {
                    (class.clone(), Verdict::Known(if site == "NAME.CAT" { "KF-C15-NAME.CAT-unbounded" } else { "KF-C15-max-points-in-program-not-enforced" }))
                } else {
                    (class.clone(), Verdict::fail(&site, &class, detail))
                }
            }
        };
        ctx.states += 1;
        ctx.nontrivial_mark(&format!("{}|{}", okey, prog.key()));
        ctx.record(id, &okey, verdict, || format!("program {} under the default limits", prog.render()));
    }
}

/// (nesting) the cost of one step is bounded by the SIZE of the items it touches, not exponential in their
/// nesting depth: every CODE / EXEC / LIST instruction on items nested 40 and 64 levels deep (81 / 129 points),
/// one step each under the armed allocation budget and the watchdog.
pub fn nesting_family(ctx: &mut Ctx) {
    let mut real = Real::new();
    let names: Vec<String> = real.names().into_iter().filter(|n| n.starts_with("CODE.") || n.starts_with("EXEC.") || n.starts_with("LIST.") || n == "NAME.QUOTE").filter(|n| n != "EXEC.CMD" && n != "CODE.RAND" && !crate::alpha::size_like(n)).collect();
    let nest = |depth: usize, leaf: i32| {
        let mut t = Tree::L(vec![Tree::I(leaf)]);
        for k in 0..depth {
            t = if k % 2 == 0 { Tree::L(vec![t]) } else { Tree::L(vec![Tree::I(k as i32), t]) };
        }
        t
    };
    // a pure chain ( ( ( ... leaf ... ) ) ): the only value sits at the deepest point
    let chain = |depth: usize, leaf: Tree| {
        let mut t = Tree::L(vec![leaf]);
        for _ in 0..depth {
            t = Tree::L(vec![t]);
        }
        t
    };
    for depth in [40usize, 64] {
        for shape in 0..3 {
        // shape 0: mixed nest, searches fail; shape 2: mixed nest, searches succeed at the deepest point; shape 1: pure chains
        let succeed = shape == 2;
        for name in &names {
            let id = match ctx.take() {
                Some(id) => id,
                None => continue,
            };
            ctx.transitions += 1;
            ctx.states += 1;
            let mut m0 = M::default();
            // second item: a different nest (searches fail) or the innermost list of the
            // top item (searches succeed at the deepest point)
            m0.c = vec![nest(depth, 1), if !succeed { nest(depth, 2) } else { Tree::L(vec![Tree::I(1)]) }, nest(depth, 1)];
            m0.e = vec![nest(depth, 3), nest(depth, 3), Tree::I(9)];
            m0.i = vec![depth as i32, 1, 0, 2];
            if shape == 1 {
                // records whose only BOOLEAN / INTEGER / FLOAT lies at the bottom of the chain, addressed as value 0 of record 0
                m0.c = vec![chain(depth, Tree::L(vec![Tree::B(true), Tree::I(5), Tree::F(1.5)])), chain(depth, Tree::I(5)), Tree::I(5)];
                m0.e = vec![chain(depth, Tree::I(3)), chain(depth, Tree::I(3))];
                m0.i = vec![0, 0, 1, 2];
            }
            m0.b = vec![true, false];
            m0.n = vec!["A".into(), "B".into()];
            m0.iv = vec![vec![5, 9, 1], vec![9]];
            m0.x = vec![(0, 2)];
            ctx.crumb(id, &format!("{}|nest|{}", name, depth));
            let before = with_instr(&m0, name);
            let t0 = std::time::Instant::now();
            let s0 = budget::snapshot();
            budget::arm(256 * MIB, 20_000_000);
            let out = step_once(&mut real, &before);
            budget::disarm();
            let s1 = budget::snapshot();
            let wall = t0.elapsed().as_secs_f64();
            let (bytes, allocs) = (s1.bytes - s0.bytes, s1.allocs - s0.allocs);
            let (okey, verdict) = match &out {
                Outcome::Panic(p) => (panic_class(p), Verdict::fail(name, &panic_class(p), p.clone())),
                Outcome::Ok(_) => {
                    // the items hold ~100 points each: a step that needs more than a million allocations or 5 s
                    // is not bounded by their size
                    if allocs > 1_000_000 || bytes > 64 * MIB || wall > 5.0 {
                        ("over".to_string(), Verdict::fail(name, "cost-exponential-in-nesting", format!("items nested {} deep ({} points): {} bytes, {} allocations, {:.2} s in one step", depth, 2 * depth + 1, bytes, allocs, wall)))
                    } else {
                        (format!("{}|{}|ok", name, depth), Verdict::Pass)
                    }
                }
            };
            ctx.nontrivial_mark(&format!("{}|{}|{}", name, depth, shape));
            ctx.record(id, &okey, verdict, || format!("{} on items nested {} levels deep ({})", name, depth, if shape == 0 { "mixed nest, searches fail" } else if shape == 2 { "mixed nest, searches succeed at the deepest point" } else { "pure chain" }));
        }
        }
    }
}

pub fn run(ctx: &mut Ctx) {
    match ctx.family.as_str() {
        "nesting" => nesting_family(ctx),
        "ladder" => ladder_family(ctx),
        "growers" => growers_family(ctx),
        f => panic!("unknown family {}", f),
    }
}
