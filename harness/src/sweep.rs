//! Generic single-step sweep: for each instruction (by NAME, through the real
//! InstructionSet), the Cartesian product of operand-stack alternatives from an
//! alphabet x bystander variants, each executed by PushInterpreter::step on a
//! freshly built state and judged by an oracle.

use crate::alpha::{apply, frags, populated, short_frag, size_like, Alpha, Frag};
use crate::core::{panic_class, step_once, with_instr, Ctx, Outcome, Real, Verdict};
use crate::foot::{foot, stack_type, Foot};
use crate::model::{Comp, M};
use crate::refmodel;

#[derive(Clone, Copy, PartialEq)]
pub enum Oracle {
    /// reference model (documented semantics, C10 rule for unfired cases)
    Judge,
    /// only "returns normally"
    NoPanic,
    /// C10: unfired rule where an operand is missing / a guard fails, confinement when it applies
    Confine,
}

pub struct Sweep {
    pub names: Vec<String>,
    pub alpha: Alpha,
    pub reduced: Alpha,
    pub cap_per_instr: usize,
    /// also enumerate the operand-missing patterns
    pub missing: bool,
    /// only the operand-missing patterns
    pub only_missing: bool,
    pub populated_too: bool,
    pub oracle: Oracle,
}

fn operand_comps(name: &str, ft: &Foot) -> Vec<(Comp, usize)> {
    let mut v: Vec<(Comp, usize)> = ft.ops.iter().map(|(c, n)| (*c, if *n == 0 { 2 } else { *n })).collect();
    if let Some((prefix, op)) = name.split_once('.') {
        if op == "STACKDEPTH" {
            if let Some((t, _)) = stack_type(prefix) {
                if !v.iter().any(|(c, _)| *c == t) {
                    v.push((t, 2));
                }
            }
            match prefix {
                "INPUT" => v.push((Comp::In, 1)),
                "OUTPUT" => v.push((Comp::Out, 1)),
                "GRAPH" => v.push((Comp::Gr, 1)),
                _ => {}
            }
        }
    }
    if name == "INPUT.AVAILABLE" {
        v.push((Comp::In, 1));
    }
    if name == "EXEC.CMD" {
        // the command and up to two arguments
        v = vec![(Comp::I, 1), (Comp::N, 3)];
    }
    if name == "INTVECTOR.FROMINT" {
        v = vec![(Comp::I, 3)];
    }
    if name == "INTVECTOR.SET*INSERT" {
        v.push((Comp::IV, 1));
    }
    if name == "LIST.ADD" || name == "LIST.SET" {
        v.push((Comp::C, 2));
    }
    if name.starts_with("LIST.NEIGHBOR") && name != "LIST.NEIGHBOR*IDS" {
        v.push((Comp::C, 2));
    }
    if name == "CODE.PRINT" {
        v = vec![(Comp::C, 2)];
    }
    v
}

fn alpha_for(name: &str, a: &Alpha) -> Alpha {
    let mut a = a.clone();
    if size_like(name) {
        a.ints.retain(|v| *v <= 1000);
        a.ints.push(9);
        a.ints.push(27);
        // sizes that admit 64 and more dimensions
        a.ints.push(64);
        a.ints.push(100);
    }
    if name == "LIST.ADD" || name == "LIST.SET" {
        a.ivs = vec![vec![], vec![9], vec![1, 9, 9], vec![11, 5, 3], vec![4, 10, 2, 6], vec![0, 13, -1, 9], vec![3, 3, 3]];
    }
    if name == "BOOLVECTOR.RAND" || name == "FLOATVECTOR.RAND" {
        // just outside [0, 1], signed zero, subnormal
        a.floats.extend([-0.0, f32::from_bits(1.0f32.to_bits() + 1), 1.003, -1e-45, 0.996]);
        a.ints.retain(|v| *v <= 9);
    }
    if name == "EXEC.CMD" {
        a.ints = vec![-1, 0, 1, 2, 3, crate::alpha::IMAX, crate::alpha::IMIN];
    }
    a
}

fn product_size(lists: &[Vec<Frag>]) -> usize {
    lists.iter().fold(1usize, |acc, l| acc.saturating_mul(l.len().max(1)))
}

fn for_product(lists: &[Vec<Frag>], mut f: impl FnMut(&[&Frag])) {
    if lists.iter().any(|l| l.is_empty()) {
        return;
    }
    let mut idx = vec![0usize; lists.len()];
    loop {
        let cur: Vec<&Frag> = idx.iter().enumerate().map(|(k, i)| &lists[k][*i]).collect();
        f(&cur);
        let mut k = lists.len();
        loop {
            if k == 0 {
                return;
            }
            k -= 1;
            idx[k] += 1;
            if idx[k] < lists[k].len() {
                break;
            }
            idx[k] = 0;
        }
    }
}

const HOLLOWABLE: [Comp; 14] = [Comp::B, Comp::I, Comp::F, Comp::N, Comp::C, Comp::E, Comp::BV, Comp::IV, Comp::FV, Comp::X, Comp::In, Comp::Out, Comp::Gr, Comp::Bind];

fn hollow(m: &mut M, c: Comp) {
    match c {
        Comp::B => m.b.clear(),
        Comp::I => m.i.clear(),
        Comp::F => m.f.clear(),
        Comp::N => m.n.clear(),
        Comp::C => m.c.clear(),
        Comp::E => m.e.clear(),
        Comp::BV => m.bv.clear(),
        Comp::IV => m.iv.clear(),
        Comp::FV => m.fv.clear(),
        Comp::X => m.x.clear(),
        Comp::In => m.input.clear(),
        Comp::Out => m.output.clear(),
        Comp::Gr => m.graphs.clear(),
        Comp::Bind => m.bindings.clear(),
        _ => {}
    }
}

pub fn situations(alpha: &Alpha) -> Vec<(&'static str, M)> {
    use crate::model::{Msg, Tree};
    let mut v = vec![];
    let mut q = populated();
    q.quote = true;
    v.push(("quote-pending", q));
    let mut full = populated();
    full.input = (0..10).map(|k| Msg { header: vec![80 + k], body: vec![k % 2 == 0, true] }).collect();
    full.output = (0..3).map(|k| Msg { header: vec![90 + k], body: vec![k % 2 == 1] }).collect();
    v.push(("queues-full", full));
    let mut crowded = populated();
    for k in 0..40 {
        crowded.b.push(k % 3 == 0);
        crowded.i.push(200 + k);
        crowded.f.push(200.5 + k as f32);
        crowded.n.push(format!("M{}", k));
        if k < 25 {
            crowded.c.push(Tree::I(300 + k));
            crowded.e.push(Tree::I(400 + k));
        }
    }
    v.push(("crowded", crowded));
    let mut spent = populated();
    spent.x = vec![(2, 2), (0, 0), (5, 3), (1, 3)];
    v.push(("spent-indices", spent));
    let mut bound = populated();
    for (k, n) in alpha.names.iter().enumerate() {
        bound.bindings.insert(n.clone(), if k % 2 == 0 { Tree::I(500 + k as i32) } else { Tree::L(vec![Tree::I(600 + k as i32), Tree::ins("NOOP")]) });
    }
    for n in ["N1", "N2", "N3", "N8", "N9"] {
        bound.bindings.insert(n.to_string(), Tree::I(7));
    }
    for (n, t) in [("NOOP", Tree::I(1)), ("INTEGER.+", Tree::I(2)), ("1", Tree::I(3)), ("TRUE", Tree::B(false)), ("2.5", Tree::F(9.5)), ("(", Tree::I(4))] {
        bound.bindings.insert(n.to_string(), t);
    }
    let mut bq = bound.clone();
    bq.quote = true;
    v.push(("operands-bound", bound));
    v.push(("operands-bound+quote-pending", bq));
    v
}

/// evenly spaced selection from every operand list so that the product stays below `cap`
fn thin_lists(lists: &[Vec<Frag>], cap: usize) -> Vec<Vec<Frag>> {
    if product_size(lists) <= cap {
        return lists.to_vec();
    }
    let k = lists.len().max(1);
    let mut s = 2usize;
    while (s + 1).pow(k as u32) <= cap {
        s += 1;
    }
    lists
        .iter()
        .map(|l| {
            if l.len() <= s {
                l.clone()
            } else {
                (0..s).map(|j| l[j * (l.len() - 1) / (s - 1)].clone()).collect()
            }
        })
        .collect()
}

pub fn judge_case(oracle: Oracle, name: &str, m0: &M, out: &Outcome, operand_missing: bool) -> Verdict {
    match oracle {
        Oracle::Judge => refmodel::judge(name, m0, out),
        Oracle::NoPanic => match out {
            Outcome::Ok(_) => Verdict::Pass,
            Outcome::Panic(p) => {
                if let Some(id) = crate::known::asis(name, m0, out) {
                    Verdict::Known(id)
                } else {
                    Verdict::fail(name, &panic_class(p), p.clone())
                }
            }
        },
        Oracle::Confine => {
            let got = match out {
                Outcome::Ok(g) => g,
                // crashes are C01's; C10 is about effects of instructions that return
                Outcome::Panic(_) => return Verdict::Pass,
            };
            let ft = match foot(name) {
                Some(f) => f,
                None => return Verdict::fail(name, "unmodelled", "no footprint".into()),
            };
            let sp = refmodel::spec(name, m0);
            let unfired = operand_missing || matches!(sp, refmodel::Exp::Unfired);
            // a guard that fails inside an instruction that otherwise applies (unknown node id, index out of
            // range, ...): the documentation then leaves the non-stack components (graphs, bindings, flags,
            // indices, messages) as they were; the reference encodes this as an outcome that does not touch them
            let mut guard_fail: Option<(String, String)> = None;
            if let refmodel::Exp::OneOf(v) | refmodel::Exp::OneOfOrUnfired(v) = &sp {
                let mut may: Vec<Comp> = vec![];
                for e in v {
                    may.extend(m0.diff(e));
                }
                for c in m0.diff(got) {
                    if matches!(c, Comp::Gr | Comp::Bind | Comp::Quote | Comp::Send | Comp::X | Comp::In | Comp::Out | Comp::Cfg) && !may.contains(&c) {
                        guard_fail = Some((format!("guard-failed-effect:{:?}", c), format!("changed {:?} although no documented outcome for this state touches it", c)));
                    }
                }
            }
            let r = if let Some(g) = guard_fail {
                Err(g)
            } else if unfired {
                refmodel::unfired_ok(&ft, m0, got).map_err(|e| ("unfired-effect".to_string(), e))
            } else {
                let allowed = ft.allowed();
                let bad: Vec<Comp> = m0.diff(got).into_iter().filter(|c| !allowed.contains(c)).collect();
                if bad.is_empty() {
                    Ok(())
                } else {
                    Err((format!("outside-footprint:{:?}", bad), format!("changed {:?}; documented footprint {:?}", bad, allowed)))
                }
            };
            match r {
                Ok(()) => Verdict::Pass,
                Err((class, detail)) => {
                    if let Some(id) = crate::known::asis(name, m0, out) {
                        Verdict::Known(id)
                    } else {
                        Verdict::fail(name, &class, format!("{} | before {{{}}} after {{{}}}", detail, m0.key(), got.key()))
                    }
                }
            }
        }
    }
}

pub fn run(ctx: &mut Ctx, real: &mut Real, sw: &Sweep) {
    let bases: Vec<(&str, M)> = if sw.populated_too { vec![("empty", M::default()), ("populated", populated())] } else { vec![("empty", M::default())] };
    for name in &sw.names {
        let ft = match foot(name) {
            Some(f) => f,
            None => {
                // an instruction the reference does not know (registered after the pinned tree): nothing is claimed
                // about its semantics; it is executed on the empty and on the populated state, and only a crash is
                // reported. The gap is listed in the evidence (caps), it is not a violation.
                let note = format!("instruction {} is registered but unknown to the reference model: only 'does not crash on the empty and on the populated state' was checked", name);
                if !ctx.caps.contains(&note) {
                    ctx.caps.push(note);
                }
                for (bl, base) in [("empty", M::default()), ("populated", populated())] {
                    if let Some(id) = ctx.take() {
                        ctx.transitions += 1;
                        let out = step_once(real, &with_instr(&base, name));
                        let v = match &out {
                            Outcome::Panic(p) => Verdict::fail(name, &panic_class(p), p.clone()),
                            Outcome::Ok(_) => Verdict::Pass,
                        };
                        ctx.record(id, &format!("{}|{}", name, out.key()), v, || format!("{} (unknown to the reference) on the {} state", name, bl));
                    }
                }
                continue;
            }
        };
        let comps = operand_comps(name, &ft);
        let mut alpha = alpha_for(name, &sw.alpha);
        let mut lists: Vec<Vec<Frag>> = comps.iter().map(|(c, n)| frags(*c, *n, &alpha)).collect();
        if product_size(&lists) > sw.cap_per_instr {
            alpha = alpha_for(name, &sw.reduced);
            lists = comps.iter().map(|(c, n)| frags(*c, *n, &alpha)).collect();
            ctx.sometimes("instructions swept with the reduced alphabet");
        }
        // RNG-driven instructions also run under extreme but ordered (min < max) random bounds
        let mut bases = bases.clone();
        if ft.random {
            let mut ext = M::default();
            ext.cfg.min_random_integer = i32::MIN;
            ext.cfg.max_random_integer = i32::MAX;
            ext.cfg.min_random_float = f32::MIN;
            ext.cfg.max_random_float = f32::MAX;
            ext.cfg.max_points_in_random_expressions = 6;
            ext.cfg.new_erc_name_probability = 1.0;
            bases.push(("extreme-config", ext));
            let mut tiny = M::default();
            tiny.cfg.min_random_integer = i32::MAX - 1;
            tiny.cfg.max_random_integer = i32::MAX;
            tiny.cfg.min_random_float = 0.0;
            tiny.cfg.max_random_float = f32::MIN_POSITIVE;
            tiny.cfg.new_erc_name_probability = 0.0;
            bases.push(("narrow-config", tiny));
            // degenerate intervals (reversed / empty): every generator must refuse or cope, never crash
            let mut deg = M::default();
            deg.cfg.min_random_integer = 3;
            deg.cfg.max_random_integer = -3;
            deg.cfg.min_random_float = 1.0;
            deg.cfg.max_random_float = -1.0;
            deg.cfg.max_points_in_random_expressions = 6;
            bases.push(("degenerate-config", deg));
            let mut zero = M::default();
            zero.cfg.min_random_integer = 0;
            zero.cfg.max_random_integer = 0;
            zero.cfg.min_random_float = 0.0;
            zero.cfg.max_random_float = 0.0;
            zero.cfg.max_points_in_random_expressions = 6;
            zero.cfg.new_erc_name_probability = 0.0;
            bases.push(("zero-width-config", zero));
        }
        // "hollow" bases: everything populated except ONE component that is not an operand of this instruction
        // (a guard or result stack that is empty while its neighbours are not) -- swept with a thinned operand product
        if sw.populated_too && !sw.only_missing {
            for c in HOLLOWABLE.iter() {
                // a documented operand is never hollowed (that is the operand-missing sweep); a stack that the
                // sweep merely varies (e.g. the records below LIST.SET) is: its operand list is left out then
                if ft.ops.iter().any(|(oc, _)| oc == c) {
                    continue;
                }
                let kept: Vec<Vec<Frag>> = comps.iter().zip(lists.iter()).filter(|((oc, _), _)| oc != c).map(|(_, l)| l.clone()).collect();
                let thin = thin_lists(&kept, 200);
                let mut base = populated();
                hollow(&mut base, *c);
                let label = format!("hollow-{:?}", c);
                for_product(&thin, |cur| {
                    let id = match ctx.take() {
                        Some(id) => id,
                        None => return,
                    };
                    let mut m0 = base.clone();
                    for f in cur {
                        apply(&mut m0, f);
                    }
                    exec_case(ctx, real, sw.oracle, id, name, &m0, &label, false);
                });
            }
        }
        // "situation" bases: the populated state in a condition that earlier, unrelated instructions can leave behind --
        // a pending NAME.QUOTE, full INPUT / OUTPUT queues, crowded stacks (more than 100 items in total), spent INDEX
        // entries, and bindings for every name of the alphabets and for names that read like other tokens
        if sw.populated_too && !sw.only_missing {
            let thin = thin_lists(&lists, 200);
            for (label, base) in situations(&alpha) {
                for_product(&thin, |cur| {
                    let id = match ctx.take() {
                        Some(id) => id,
                        None => return,
                    };
                    let mut m0 = base.clone();
                    for f in cur {
                        apply(&mut m0, f);
                    }
                    exec_case(ctx, real, sw.oracle, id, name, &m0, label, false);
                });
            }
        }
        for (blabel, base) in &bases {
            if !sw.only_missing {
                for_product(&lists, |cur| {
                    let id = match ctx.take() {
                        Some(id) => id,
                        None => return,
                    };
                    let mut m0 = base.clone();
                    for f in cur {
                        apply(&mut m0, f);
                    }
                    exec_case(ctx, real, sw.oracle, id, name, &m0, blabel, false);
                });
            }
            if sw.missing || sw.only_missing {
                // every non-empty subset of operand stacks made too short, every depth below the need
                let k = comps.len();
                for mask in 1u32..(1u32 << k) {
                    let mut alts: Vec<Vec<Frag>> = vec![];
                    for (j, (c, need)) in comps.iter().enumerate() {
                        if mask & (1 << j) != 0 {
                            let real_need = ft.ops.iter().find(|(oc, _)| oc == c).map(|(_, n)| *n).unwrap_or(0);
                            if real_need == 0 {
                                alts.push(vec![]);
                                continue;
                            }
                            alts.push((0..real_need).map(|d| short_frag(*c, d, &alpha)).collect());
                        } else {
                            let mut full = frags(*c, *need, &alpha);
                            full.truncate(2);
                            alts.push(full);
                        }
                    }
                    for_product(&alts, |cur| {
                        let id = match ctx.take() {
                            Some(id) => id,
                            None => return,
                        };
                        let mut m0 = base.clone();
                        for f in cur {
                            apply(&mut m0, f);
                        }
                        exec_case(ctx, real, sw.oracle, id, name, &m0, blabel, true);
                    });
                }
            }
        }
    }
}

fn exec_case(ctx: &mut Ctx, real: &mut Real, oracle: Oracle, id: u64, name: &str, m0: &M, blabel: &str, missing: bool) {
    ctx.transitions += 1;
    ctx.states += 1;
    let before = with_instr(m0, name);
    ctx.crumb(id, name);
    let out = step_once(real, &before);
    let verdict = judge_case(oracle, name, m0, &out, missing);
    let okey = format!("{}|{}", name, out.key());
    if let Outcome::Ok(after) = &out {
        if !after.diff(m0).is_empty() {
            ctx.nontrivial_mark(&okey);
        }
    }
    ctx.record(id, &okey, verdict, || format!("{} on {} base, state {{{}}}", name, blabel, m0.key()));
}


/// dev helper: for every instruction, how the reference answers over the tiny operand product on the populated base
pub fn speccov(real: &mut Real) {
    for name in real.names() {
        let ft = match foot(&name) { Some(f) => f, None => { println!("{} NOFOOT", name); continue; } };
        let comps = operand_comps(&name, &ft);
        let alpha = alpha_for(&name, &Alpha::tiny());
        let lists: Vec<Vec<Frag>> = comps.iter().map(|(c, n)| frags(*c, *n, &alpha)).collect();
        let thin = thin_lists(&lists, 300);
        let mut cnt = std::collections::BTreeMap::new();
        for_product(&thin, |cur| {
            let mut m0 = populated();
            for f in cur { apply(&mut m0, f); }
            let k = match refmodel::spec(&name, &m0) {
                refmodel::Exp::Unknown => "Unknown",
                refmodel::Exp::Any => "Any",
                refmodel::Exp::Unfired => "Unfired",
                refmodel::Exp::OneOf(v) => if v.len() == 1 { "Exact" } else { "OneOf" },
                refmodel::Exp::Check(..) => "Check",
                refmodel::Exp::OneOfOrUnfired(_) => "OneOfOrUnfired",
            };
            *cnt.entry(k).or_insert(0usize) += 1;
        });
        println!("{} {:?}", name, cnt);
    }
}
