//! Worker-side plumbing: panic capture, the per-run context (sharding, replay,
//! counters, findings), a tiny JSON writer, and the "one step on the real
//! interpreter" primitive every single-step family uses.

use crate::model::{build, observe, Tree, M};
use pushr::push::instructions::{InstructionCache, InstructionSet};
use pushr::push::interpreter::PushInterpreter;
use std::cell::RefCell;
use std::collections::hash_map::DefaultHasher;
use std::collections::{BTreeMap, HashSet};
use std::hash::{Hash, Hasher};
use std::io::Write;
use std::os::unix::io::FromRawFd;
use std::panic::{catch_unwind, AssertUnwindSafe};

thread_local! {
    static LAST_PANIC: RefCell<Option<String>> = RefCell::new(None);
}

pub fn install_panic_hook() {
    std::panic::set_hook(Box::new(|info| {
        let msg = if let Some(s) = info.payload().downcast_ref::<&str>() {
            s.to_string()
        } else if let Some(s) = info.payload().downcast_ref::<String>() {
            s.clone()
        } else {
            "<non-string panic>".to_string()
        };
        let loc = info.location().map(|l| format!("{}:{}", l.file(), l.line())).unwrap_or_default();
        LAST_PANIC.with(|p| *p.borrow_mut() = Some(format!("{} @ {}", msg, loc)));
    }));
}

/// Runs `f`, turning an unwind into `Err(message @ file:line)`.
thread_local! {
    /// set by `take_exec` for a case that terminated the worker in an earlier attempt: the next guarded
    /// execution is not run (the supervisor has already reported the death); the search goes on without a successor
    static SKIP_NEXT: std::cell::Cell<bool> = std::cell::Cell::new(false);
}
pub const KILLER_SKIPPED: &str = "KILLER-SKIPPED: this case terminated the worker in an earlier attempt";

pub fn guarded<T>(f: impl FnOnce() -> T) -> Result<T, String> {
    if SKIP_NEXT.with(|s| s.replace(false)) {
        return Err(KILLER_SKIPPED.to_string());
    }
    LAST_PANIC.with(|p| *p.borrow_mut() = None);
    match catch_unwind(AssertUnwindSafe(f)) {
        Ok(v) => Ok(v),
        Err(_) => Err(LAST_PANIC.with(|p| p.borrow_mut().take()).unwrap_or_else(|| "<panic>".to_string())),
    }
}

/// Strips the line number / absolute path noise from a panic text so that it can
/// be used as a stable class ("attempt to add with overflow @ integer.rs").
pub fn panic_class(msg: &str) -> String {
    let (text, loc) = match msg.rsplit_once(" @ ") {
        Some((t, l)) => (t, l),
        None => (msg, ""),
    };
    let file = loc.rsplit('/').next().unwrap_or("").split(':').next().unwrap_or("");
    // numbers in messages ("index out of bounds: the len is 2 but the index is 3") are dropped
    let mut t = String::new();
    let mut last_digit = false;
    for ch in text.chars() {
        if ch.is_ascii_digit() {
            if !last_digit {
                t.push('#');
            }
            last_digit = true;
        } else {
            t.push(ch);
            last_digit = false;
        }
    }
    if t.len() > 90 {
        t.truncate(90);
    }
    format!("panic: {} @ {}", t, file)
}

/// wall-clock start of the case named in the breadcrumb (0 = none); read by the watchdog thread
pub static CASE_STARTED_MS: std::sync::atomic::AtomicU64 = std::sync::atomic::AtomicU64::new(0);

pub fn now_ms() -> u64 {
    std::time::SystemTime::now().duration_since(std::time::UNIX_EPOCH).map(|d| d.as_millis() as u64).unwrap_or(0)
}

/// A case that spins without allocating cannot be stopped by the allocation budget: a watchdog thread
/// terminates the worker when the case named in the breadcrumb has been running for `limit_s`
/// seconds; the supervisor attributes the death to that case like any other abort.
pub fn start_watchdog(limit_s: u64) {
    std::thread::spawn(move || loop {
        std::thread::sleep(std::time::Duration::from_millis(250));
        let t = CASE_STARTED_MS.load(std::sync::atomic::Ordering::Relaxed);
        if t != 0 && now_ms().saturating_sub(t) > limit_s * 1000 {
            eprintln!("WATCHDOG: the case in the breadcrumb has been running for more than {} s", limit_s);
            std::process::abort();
        }
    });
}

/// draws a single step may take from the default RNG script before it is reported as a hang
pub static DRAW_HORIZON: std::sync::atomic::AtomicUsize = std::sync::atomic::AtomicUsize::new(100_000);

pub struct Real {
    pub iset: InstructionSet,
    pub icache: InstructionCache,
}
impl Real {
    pub fn new() -> Real {
        let mut iset = InstructionSet::new();
        iset.load();
        let icache = iset.cache();
        Real { iset, icache }
    }
    pub fn names(&self) -> Vec<String> {
        let mut v = self.icache.list.clone();
        v.sort();
        v
    }
}

#[derive(Clone, Debug)]
pub enum Outcome {
    Ok(M),
    Panic(String),
}
impl Outcome {
    pub fn key(&self) -> String {
        match self {
            Outcome::Ok(m) => m.key(),
            Outcome::Panic(p) => panic_class(p),
        }
    }
}

/// Builds the real state for `m0`, executes exactly one interpreter step and
/// observes the result. `m0.e` must already hold the item to execute on top.
pub fn step_once(real: &mut Real, m0: &M) -> Outcome {
    let Real { iset, icache } = real;
    let r = guarded(|| {
        let mut st = build(m0);
        // deterministic environment: node ids start at a known value, EXEC.CMD's pause is virtual
        pushr::push::graph::verif_set_node_counter(crate::refmodel::next_node_id());
        pushr::push::verif::install_clock(0);
        // RNG answers come from the default script (a fixed Weyl sequence): every execution is replayable
        pushr::push::verif::install_script(vec![], DRAW_HORIZON.load(std::sync::atomic::Ordering::Relaxed));
        PushInterpreter::step(&mut st, iset, icache);
        observe(&st)
    });
    pushr::push::verif::clear_script();
    pushr::push::verif::clear_clock();
    reap_children();
    match r {
        Ok(m) => Outcome::Ok(m),
        Err(p) => Outcome::Panic(p),
    }
}

/// One step of a LIVE history: `pre` acts on the live state (the environment's and the program's pushes),
/// then `push` (if any) is put on top of EXEC and one interpreter step is executed.
pub struct LiveStep {
    pub pre: Box<dyn Fn(&mut pushr::push::state::PushState)>,
    pub push: Option<Tree>,
}

/// Executes a whole history on ONE live state object built once from `m0` (nothing is rebuilt in between,
/// so whatever an operation leaves behind outside the observable state is still there for the next one) and
/// observes the end. The families that explore state graphs step by step from rebuilt states compare this
/// with the state their own chain of single steps arrived at.
pub fn live_history(real: &mut Real, m0: &M, steps: &[LiveStep]) -> Outcome {
    let Real { iset, icache } = real;
    let r = guarded(|| {
        let mut st = build(m0);
        pushr::push::graph::verif_set_node_counter(crate::refmodel::next_node_id());
        pushr::push::verif::install_clock(0);
        for s in steps {
            (s.pre)(&mut st);
            if let Some(t) = &s.push {
                st.exec_stack.push(crate::model::item_of(t));
            }
            pushr::push::verif::install_script(vec![], DRAW_HORIZON.load(std::sync::atomic::Ordering::Relaxed));
            PushInterpreter::step(&mut st, iset, icache);
        }
        observe(&st)
    });
    pushr::push::verif::clear_script();
    pushr::push::verif::clear_clock();
    reap_children();
    match r {
        Ok(m) => Outcome::Ok(m),
        Err(p) => Outcome::Panic(p),
    }
}

/// `m0` with instruction `name` pushed on top of EXEC.
pub fn with_instr(m0: &M, name: &str) -> M {
    let mut m = m0.clone();
    m.e.insert(0, Tree::Ins(name.to_string()));
    m
}

pub fn h64<T: Hash + ?Sized>(t: &T) -> u64 {
    let mut h = DefaultHasher::new();
    t.hash(&mut h);
    h.finish()
}

// ---------------------------------------------------------------------------
// JSON (writer only)

#[derive(Clone, Debug)]
pub enum J {
    Null,
    Bool(bool),
    Num(f64),
    Int(i64),
    Str(String),
    Arr(Vec<J>),
    Obj(Vec<(String, J)>),
}
impl J {
    pub fn s(x: impl Into<String>) -> J {
        J::Str(x.into())
    }
    pub fn obj(v: Vec<(&str, J)>) -> J {
        J::Obj(v.into_iter().map(|(k, v)| (k.to_string(), v)).collect())
    }
    pub fn write(&self, out: &mut String) {
        match self {
            J::Null => out.push_str("null"),
            J::Bool(b) => out.push_str(if *b { "true" } else { "false" }),
            J::Num(n) => {
                if n.is_finite() {
                    out.push_str(&format!("{}", n))
                } else {
                    out.push_str("null")
                }
            }
            J::Int(n) => out.push_str(&n.to_string()),
            J::Str(s) => {
                out.push('"');
                for ch in s.chars() {
                    match ch {
                        '"' => out.push_str("\\\""),
                        '\\' => out.push_str("\\\\"),
                        '\n' => out.push_str("\\n"),
                        '\r' => out.push_str("\\r"),
                        '\t' => out.push_str("\\t"),
                        c if (c as u32) < 0x20 => out.push_str(&format!("\\u{:04x}", c as u32)),
                        c => out.push(c),
                    }
                }
                out.push('"');
            }
            J::Arr(v) => {
                out.push('[');
                for (i, x) in v.iter().enumerate() {
                    if i > 0 {
                        out.push(',');
                    }
                    x.write(out);
                }
                out.push(']');
            }
            J::Obj(v) => {
                out.push('{');
                for (i, (k, x)) in v.iter().enumerate() {
                    if i > 0 {
                        out.push(',');
                    }
                    J::Str(k.clone()).write(out);
                    out.push(':');
                    x.write(out);
                }
                out.push('}');
            }
        }
    }
    pub fn to_string(&self) -> String {
        let mut s = String::new();
        self.write(&mut s);
        s
    }
}

// ---------------------------------------------------------------------------
// Verdicts and the run context

#[derive(Clone, Debug)]
pub enum Verdict {
    Pass,
    /// implementation deviates from the documented semantics exactly as the
    /// listed known finding says (as-is variant matched)
    Known(&'static str),
    Fail { site: String, class: String, detail: String },
}
impl Verdict {
    pub fn fail(site: &str, class: &str, detail: String) -> Verdict {
        Verdict::Fail { site: site.to_string(), class: class.to_string(), detail }
    }
}

pub struct Ctx {
    pub prop: String,
    pub family: String,
    pub tier_thorough: bool,
    pub profile: String,
    pub shard: usize,
    pub nshards: usize,
    /// replay mode: run only this case (and print everything about it)
    pub only: Option<u64>,
    /// replay mode for history-dependent failures: execute every case this shard ran before `only` as well
    /// (recording nothing about them), so that whatever they left behind in the process is there again
    pub prefix: bool,
    /// resume after an aborted case: ids below this are skipped
    pub from: u64,
    /// cases that terminated the worker in earlier attempts of this shard: never executed again
    pub skip: Vec<u64>,
    pub next_id: u64,
    pub cases: u64,
    pub states: u64,
    pub transitions: u64,
    pub traces: u64,
    pub max_depth: u64,
    pub fixpoint: Option<bool>,
    pub outcomes: HashSet<u64>,
    pub nontrivial: HashSet<u64>,
    pub samples: Vec<String>,
    pub known: BTreeMap<String, (u64, String)>,
    pub fails: Vec<(u64, String, String, String, String)>, // id, site, class, descr, detail
    pub fail_count: u64,
    pub fail_classes: BTreeMap<String, u64>,
    pub caps: Vec<String>,
    pub extra: Vec<(String, J)>,
    pub digests: Option<std::fs::File>,
    pub breadcrumb: Option<std::fs::File>,
    pub sometimes: BTreeMap<String, u64>,
}

impl Ctx {
    pub fn new(prop: &str, family: &str) -> Ctx {
        Ctx {
            prop: prop.to_string(),
            family: family.to_string(),
            tier_thorough: false,
            profile: String::new(),
            shard: 0,
            nshards: 1,
            only: None,
            prefix: false,
            skip: Vec::new(),
            from: 0,
            next_id: 0,
            cases: 0,
            states: 0,
            transitions: 0,
            traces: 0,
            max_depth: 0,
            fixpoint: None,
            outcomes: HashSet::new(),
            nontrivial: HashSet::new(),
            samples: Vec::new(),
            known: BTreeMap::new(),
            fails: Vec::new(),
            fail_count: 0,
            fail_classes: BTreeMap::new(),
            caps: Vec::new(),
            extra: Vec::new(),
            digests: None,
            breadcrumb: None,
            sometimes: BTreeMap::new(),
        }
    }

    /// Allocates the next case id and says whether this worker runs it.
    pub fn take(&mut self) -> Option<u64> {
        let id = self.next_id;
        self.next_id += 1;
        if self.skip.contains(&id) {
            return None;
        }
        let r = self.take_inner(id);
        if r.is_some() {
            self.mark_case(id);
        }
        r
    }

    /// Every case start is written to the breadcrumb file (one positional write) and time-stamped for the
    /// watchdog, whether or not the family supplies a description of its own afterwards (`crumb`).
    pub fn mark_case(&mut self, id: u64) {
        CASE_STARTED_MS.store(now_ms(), std::sync::atomic::Ordering::Relaxed);
        if let Some(f) = self.breadcrumb.as_mut() {
            use std::os::unix::fs::FileExt;
            let mut line = format!("{} {}", id, self.family);
            line.truncate(120);
            while line.len() < 120 {
                line.push(' ');
            }
            line.push('\n');
            let _ = f.write_at(line.as_bytes(), 0);
        }
    }

    fn take_inner(&mut self, id: u64) -> Option<u64> {
        match self.only {
            Some(o) => {
                if o == id || (self.prefix && id < o && (id as usize) % self.nshards == self.shard) {
                    Some(id)
                } else {
                    None
                }
            }
            None => {
                if (id as usize) % self.nshards == self.shard && id >= self.from {
                    Some(id)
                } else {
                    None
                }
            }
        }
    }

    /// For explicit-state searches: the transition is always executed (successor
    /// states are needed to continue the search); the flag says whether to record it
    /// (always in a normal run of an unsharded family, only the requested case in a replay).
    pub fn take_exec(&mut self) -> (u64, bool) {
        let id = self.next_id;
        self.next_id += 1;
        if self.skip.contains(&id) {
            SKIP_NEXT.with(|s| s.set(true));
        } else {
            self.mark_case(id);
        }
        let rec = match self.only {
            Some(o) => o == id,
            None => true,
        };
        (id, rec)
    }

    /// Written *before* a case runs, so that the supervisor can attribute an
    /// abort (OOM, stack overflow, kill) to it.
    pub fn crumb(&mut self, id: u64, descr: &str) {
        CASE_STARTED_MS.store(now_ms(), std::sync::atomic::Ordering::Relaxed);
        if let Some(f) = self.breadcrumb.as_mut() {
            use std::io::{Seek, SeekFrom};
            let _ = f.seek(SeekFrom::Start(0));
            let mut line = format!("{} {}", id, descr);
            line.truncate(120);
            while line.len() < 120 {
                line.push(' ');
            }
            line.push('\n');
            let _ = f.write_all(line.as_bytes());
        }
    }

    pub fn replaying(&self) -> bool {
        self.only.is_some()
    }

    /// Records one executed case. `descr` is only rendered when needed.
    pub fn record_if(&mut self, rec: bool, id: u64, outcome_key: &str, verdict: Verdict, descr: impl FnOnce() -> String) {
        if rec {
            self.record(id, outcome_key, verdict, descr)
        }
    }

    pub fn record(&mut self, id: u64, outcome_key: &str, verdict: Verdict, descr: impl FnOnce() -> String) {
        CASE_STARTED_MS.store(0, std::sync::atomic::Ordering::Relaxed);
        if self.prefix && self.only.map(|o| o != id).unwrap_or(false) {
            return; // a case executed only to restore the history of the replayed one
        }
        if let Verdict::Fail { detail, class, .. } = &verdict {
            if detail.contains("KILLER-SKIPPED") || class.contains("KILLER-SKIPPED") {
                return; // reported by the supervisor as a worker death already
            }
        }
        self.cases += 1;
        self.traces += 1;
        let oh = h64(outcome_key);
        self.outcomes.insert(oh);
        if let Some(f) = self.digests.as_mut() {
            let _ = writeln!(f, "{} {:016x}", id, oh);
        }
        let need_descr = self.replaying() || self.samples.len() < 3 || !matches!(verdict, Verdict::Pass);
        let d = if need_descr { descr() } else { String::new() };
        if self.samples.len() < 3 && matches!(verdict, Verdict::Pass) {
            self.samples.push(format!("{} => {}", d, trunc(outcome_key, 300)));
        }
        if self.replaying() {
            println!("REPLAY case={} {}", id, d);
            println!("REPLAY outcome={}", outcome_key);
            println!("REPLAY verdict={:?}", verdict);
        }
        match verdict {
            Verdict::Pass => {}
            Verdict::Known(k) => {
                let e = self.known.entry(k.to_string()).or_insert((0, String::new()));
                e.0 += 1;
                if e.1.is_empty() {
                    e.1 = format!("case {}: {} => {}", id, trunc(&d, 400), trunc(outcome_key, 300));
                }
            }
            Verdict::Fail { site, class, detail } => {
                self.fail_count += 1;
                let ck = format!("{}|{}", site, class);
                let n = self.fail_classes.entry(ck).or_insert(0);
                *n += 1;
                if *n <= 3 && self.fails.len() < 60 {
                    self.fails.push((id, site, class, trunc(&d, 1500), trunc(&detail, 1500)));
                }
            }
        }
    }

    pub fn nontrivial_mark(&mut self, key: &str) {
        self.nontrivial.insert(h64(key));
    }

    pub fn sometimes(&mut self, what: &str) {
        *self.sometimes.entry(what.to_string()).or_insert(0) += 1;
    }

    pub fn result_json(&self) -> J {
        J::obj(vec![
            ("prop", J::s(self.prop.clone())),
            ("family", J::s(self.family.clone())),
            ("profile", J::s(self.profile.clone())),
            ("shard", J::Int(self.shard as i64)),
            ("nshards", J::Int(self.nshards as i64)),
            ("cases", J::Int(self.cases as i64)),
            ("states", J::Int(self.states as i64)),
            ("transitions", J::Int(self.transitions as i64)),
            ("traces", J::Int(self.traces as i64)),
            ("max_depth", J::Int(self.max_depth as i64)),
            ("fixpoint", match self.fixpoint { Some(b) => J::Bool(b), None => J::Null }),
            ("outcomes", J::Arr(self.outcomes.iter().take(200000).map(|h| J::s(format!("{:x}", h))).collect())),
            ("nontrivial", J::Arr(self.nontrivial.iter().take(200000).map(|h| J::s(format!("{:x}", h))).collect())),
            ("outcomes_n", J::Int(self.outcomes.len() as i64)),
            ("nontrivial_n", J::Int(self.nontrivial.len() as i64)),
            ("samples", J::Arr(self.samples.iter().map(|s| J::s(s.clone())).collect())),
            (
                "known",
                J::Obj(
                    self.known
                        .iter()
                        .map(|(k, (n, w))| (k.clone(), J::obj(vec![("count", J::Int(*n as i64)), ("witness", J::s(w.clone()))])))
                        .collect(),
                ),
            ),
            ("fail_count", J::Int(self.fail_count as i64)),
            ("fail_classes", J::Obj(self.fail_classes.iter().map(|(k, n)| (k.clone(), J::Int(*n as i64))).collect())),
            (
                "fails",
                J::Arr(
                    self.fails
                        .iter()
                        .map(|(id, site, class, d, det)| {
                            J::obj(vec![
                                ("case", J::Int(*id as i64)),
                                ("site", J::s(site.clone())),
                                ("class", J::s(class.clone())),
                                ("descr", J::s(d.clone())),
                                ("detail", J::s(det.clone())),
                            ])
                        })
                        .collect(),
                ),
            ),
            ("caps", J::Arr(self.caps.iter().map(|s| J::s(s.clone())).collect())),
            ("sometimes", J::Obj(self.sometimes.iter().map(|(k, n)| (k.clone(), J::Int(*n as i64))).collect())),
            ("extra", J::Obj(self.extra.clone())),
        ])
    }
}

pub fn trunc(s: &str, n: usize) -> String {
    if s.len() <= n {
        s.to_string()
    } else {
        let mut end = n;
        while !s.is_char_boundary(end) {
            end -= 1;
        }
        format!("{}…", &s[..end])
    }
}

/// Results travel on the descriptor named by MCW_RESULT_FD (a pipe of the
/// supervisor), otherwise on stdout. pushr's own println!s go to stdout.
pub fn emit_result(line: &str) {
    match std::env::var("MCW_RESULT_FD").ok().and_then(|v| v.parse::<i32>().ok()) {
        Some(fd) => {
            let mut f = unsafe { std::fs::File::from_raw_fd(fd) };
            let _ = writeln!(f, "{}", line);
            let _ = f.flush();
        }
        None => println!("{}", line),
    }
}

extern "C" {
    fn waitpid(pid: i32, status: *mut i32, options: i32) -> i32;
}
/// EXEC.CMD never waits for the processes it spawns; collect them so that a long
/// sweep does not accumulate zombies.
pub fn reap_children() {
    unsafe {
        let mut st: i32 = 0;
        // WNOHANG = 1
        while waitpid(-1, &mut st as *mut i32, 1) > 0 {}
    }
}
