//! C02 — the run loop honours step, growth and time limits and reports the right outcome.
//! Every program of a small control alphabet x every limit configuration is run by
//! `PushInterpreter::run`; an independent accounting single-steps a second copy with
//! the public `step` and derives the set of admissible (outcome, steps) pairs from the
//! property statement; the run's outcome and final state must be one of them.

use crate::alpha::populated;
use crate::core::{guarded, panic_class, Ctx, Real, Verdict};
use crate::model::{build, observe, Tree, M};
use crate::treeops::trees_up_to;
use pushr::push::instructions::{Instruction, InstructionCache};
use pushr::push::interpreter::{PushInterpreter, PushInterpreterState};
use pushr::push::state::PushState;

fn tick(ms: u64) -> impl FnMut(&mut PushState, &InstructionCache) + Send + 'static {
    move |_st, _c| {
        pushr::push::verif::advance_clock(ms);
    }
}

fn grow(stack: usize, k: usize) -> impl FnMut(&mut PushState, &InstructionCache) + Send + 'static {
    move |st, _c| {
        for j in 0..k {
            match stack {
                0 => st.bool_stack.push(true),
                1 => st.int_stack.push(j as i32),
                2 => st.float_stack.push(j as f32),
                3 => st.name_stack.push(format!("g{}", j)),
                4 => st.code_stack.push(pushr::push::item::Item::int(j as i32)),
                5 => st.exec_stack.push(pushr::push::item::Item::noop()),
                6 => st.bool_vector_stack.push(pushr::push::vector::BoolVector::new(vec![true])),
                7 => st.int_vector_stack.push(pushr::push::vector::IntVector::new(vec![1])),
                _ => st.float_vector_stack.push(pushr::push::vector::FloatVector::new(vec![1.0])),
            }
        }
    }
}

const GROW_NAMES: [&str; 9] = ["B", "I", "F", "N", "C", "E", "BV", "IV", "FV"];

fn real_with_harness_instructions() -> Real {
    let mut real = Real::new();
    for d in [0u64, 1, 5] {
        real.iset.add(format!("TICK{}", d), Instruction::new(tick(d)));
    }
    for (s, n) in GROW_NAMES.iter().enumerate() {
        for k in 0..=8 {
            real.iset.add(format!("GROW.{}.{}", n, k), Instruction::new(grow(s, k)));
        }
    }
    real.icache = real.iset.cache();
    real
}

fn size9(m: &M) -> usize {
    m.b.len() + m.i.len() + m.f.len() + m.n.len() + m.c.len() + m.e.len() + m.bv.len() + m.iv.len() + m.fv.len()
}

#[derive(Clone, Copy, Debug, PartialEq)]
enum R {
    NoErrors,
    Step,
    Time,
    Growth,
}

struct Traj {
    /// states after 0, 1, 2, ... steps (0 = after the copy to the CODE stack)
    states: Vec<M>,
    /// virtual elapsed ms after j steps
    t: Vec<u64>,
    /// number of steps to quiescence, if reached within the horizon
    done_at: Option<usize>,
}

/// independent accounting: single-step a second copy with the public `step`
fn trajectory(real: &mut Real, m0: &M, horizon: usize) -> Result<Traj, String> {
    let Real { iset, icache } = real;
    let r = guarded(|| {
        // documented: the program is first copied from EXEC onto the CODE stack (order preserved, on top)
        let mut after_copy = m0.clone();
        let mut c = m0.e.clone();
        c.extend(m0.c.iter().cloned());
        after_copy.c = c;
        let mut st = build(&after_copy);
        pushr::push::verif::install_clock(0);
        pushr::push::verif::install_script(vec![], 100_000);
        let mut states = vec![observe(&st)];
        let mut t = vec![0u64];
        let mut done_at = None;
        for j in 0..horizon {
            if PushInterpreter::step(&mut st, iset, icache) {
                done_at = Some(j);
                break;
            }
            states.push(observe(&st));
            t.push(pushr::push::verif::clock_now().unwrap_or(0));
        }
        Traj { states, t, done_at }
    });
    pushr::push::verif::clear_script();
    pushr::push::verif::clear_clock();
    r
}

/// admissible (outcome, number of executed steps) pairs, from the property statement
fn admissible(tr: &Traj, limit: i32, cap: usize, tl: u64) -> Vec<(R, usize)> {
    let mut out = vec![];
    let mut j = 0usize;
    loop {
        let mut mandatory = false;
        // a program that has finished within the budget may always be reported as finished
        // ("NoErrors only when the EXEC stack is empty"; at most limit+1 steps were executed)
        if tr.done_at == Some(j) {
            out.push((R::NoErrors, j));
        }
        // step budget: StepLimitExceeded only after the budget is used up, never after more than limit+1 steps
        if (j as i64) >= limit as i64 {
            out.push((R::Step, j));
            if (j as i64) >= limit as i64 + 1 {
                mandatory = true;
            }
        }
        // time: once the limit has passed no further step is started
        if tr.t[j] > tl {
            out.push((R::Time, j));
            mandatory = true;
        }
        if mandatory || tr.done_at == Some(j) {
            return out;
        }
        if j + 1 >= tr.states.len() {
            // horizon of the accounting reached (diverging program): nothing more to say
            return out;
        }
        // execute step j+1; growth cap: exactly when a single step enlarged the state by more than cap
        let grown = size9(&tr.states[j + 1]) > size9(&tr.states[j]).saturating_add(cap);
        j += 1;
        if grown {
            out.push((R::Growth, j));
            return out;
        }
    }
}

fn run_real(real: &mut Real, m0: &M) -> Result<(R, M), String> {
    let Real { iset, .. } = real;
    let r = guarded(|| {
        let mut st = build(m0);
        pushr::push::verif::install_clock(0);
        pushr::push::verif::install_script(vec![], 100_000);
        let r = PushInterpreter::run(&mut st, iset);
        let r = match r {
            PushInterpreterState::NoErrors => R::NoErrors,
            PushInterpreterState::StepLimitExceeded => R::Step,
            PushInterpreterState::TimeLimitExceeded => R::Time,
            PushInterpreterState::GrowthCapExceeded => R::Growth,
        };
        (r, observe(&st))
    });
    pushr::push::verif::clear_script();
    pushr::push::verif::clear_clock();
    r
}

fn check_case(ctx: &mut Ctx, real: &mut Real, label: &str, prog: &Tree, base: &M, limit: i32, cap: usize, tl: u64) {
    let id = match ctx.take() {
        Some(id) => id,
        None => return,
    };
    ctx.transitions += 1;
    ctx.states += 1;
    let mut m0 = base.clone();
    m0.e.insert(0, prog.clone());
    m0.cfg.eval_push_limit = limit;
    m0.cfg.growth_cap = cap;
    m0.cfg.eval_time_limit = tl;
    let horizon = (limit.max(0) as usize) + 12;
    let descr = || format!("{} program {} limit={} cap={} time={}ms base {{{}}}", label, prog.render(), limit, cap, tl, base.key());
    let tr = match trajectory(real, &m0, horizon) {
        Ok(t) => t,
        Err(p) => {
            ctx.record(id, &panic_class(&p), Verdict::fail("step", &panic_class(&p), p), descr);
            return;
        }
    };
    let adm = admissible(&tr, limit, cap, tl);
    let (okey, verdict) = match run_real(real, &m0) {
        Err(p) => (panic_class(&p), Verdict::fail("run", &panic_class(&p), p)),
        Ok((r, fin)) => {
            let fk = fin.key();
            let okey = format!("{:?}|{}", r, fk);
            // which step counts reproduce the final state exactly?
            let ks: Vec<usize> = (0..tr.states.len()).filter(|j| tr.states[*j].key() == fk).collect();
            let mut problems = vec![];
            if ks.is_empty() {
                problems.push(format!("final state {{{}}} is not reached by any number of single steps (0..{})", fk, tr.states.len() - 1));
            } else if !ks.iter().any(|k| adm.contains(&(r, *k))) {
                problems.push(format!("outcome {:?} after {:?} steps; admissible (outcome, steps): {:?}", r, ks, adm));
            }
            if r == R::NoErrors && !fin.e.is_empty() {
                problems.push("NoErrors although the EXEC stack is not empty".into());
            }
            if problems.is_empty() {
                (okey, Verdict::Pass)
            } else {
                (okey, Verdict::fail("run", &format!("outcome:{:?}", r), problems.join("; ")))
            }
        }
    };
    ctx.nontrivial_mark(&okey);
    ctx.record(id, &okey, verdict, descr);
}

fn bases() -> Vec<(&'static str, M)> {
    let mut some = M::default();
    some.c = vec![Tree::I(9)];
    some.i = vec![3, 4];
    some.b = vec![true];
    let mut pop = populated();
    pop.e.clear();
    // a NAME.QUOTE left pending by whatever ran before, and a binding: a top-level run starts from the state it is given
    let mut quoted = some.clone();
    quoted.quote = true;
    quoted.bindings.insert("A".into(), Tree::I(7));
    vec![("empty", M::default()), ("some", some), ("populated", pop), ("quote-pending", quoted)]
}

pub fn programs_family(ctx: &mut Ctx) {
    let mut real = real_with_harness_instructions();
    let l: i32 = if ctx.tier_thorough { 12 } else { 6 };
    let atoms = vec![Tree::ins("TICK0"), Tree::ins("TICK1"), Tree::ins("TICK5"), Tree::ins("EXEC.Y"), Tree::ins("EXEC.DUP"), Tree::ins("NOOP"), Tree::I(1)];
    let progs = trees_up_to(if ctx.tier_thorough { 5 } else { 4 }, &atoms);
    ctx.extra.push(("programs".into(), crate::core::J::Int(progs.len() as i64)));
    let bs = bases();
    for prog in &progs {
        for (bi, (bl, base)) in bs.iter().enumerate() {
            for limit in -1..=l + 1 {
                for cap in [0usize, 1, 2, 5] {
                    for tl in [5000u64, 0, 3] {
                        // the full product on the empty base; the other bases with the default cap
                        if bi > 0 && cap != 5 {
                            continue;
                        }
                        check_case(ctx, &mut real, bl, prog, base, limit, cap, tl);
                    }
                }
            }
        }
    }
}

pub fn ladder_family(ctx: &mut Ctx) {
    let mut real = real_with_harness_instructions();
    let l: i32 = if ctx.tier_thorough { 12 } else { 6 };
    let bs = bases();
    // straight-line programs needing exactly n steps (one step unpacks the list)
    for n in 0..=(l + 3) as usize {
        let prog = Tree::L((0..n).map(|_| Tree::ins("NOOP")).collect());
        for (bl, base) in &bs {
            for limit in -1..=l + 1 {
                for tl in [5000u64, 0] {
                    check_case(ctx, &mut real, bl, &prog, base, limit, 500, tl);
                }
            }
        }
    }
    // long programs whose clock advances at one late position: the time limit is honoured from the
    // very next check on, wherever in the program the time passes
    for n in [12usize, 20, 40] {
        for k in 0..n {
            let mut items: Vec<Tree> = (0..n).map(|_| Tree::ins("NOOP")).collect();
            items[k] = Tree::ins("TICK5");
            let prog = Tree::L(items);
            check_case(ctx, &mut real, "empty", &prog, &bs[0].1, 100, 500, 3);
        }
    }
    // several growing steps in one run: each within the cap, together far beyond it (the cap is per step)
    for k in 1..=3usize {
        let prog = Tree::L(vec![Tree::ins(&format!("GROW.I.{}", k)), Tree::ins("NOOP"), Tree::ins(&format!("GROW.F.{}", k)), Tree::ins(&format!("GROW.B.{}", k)), Tree::ins(&format!("GROW.I.{}", k))]);
        for (bl, base) in &bs {
            for cap in [k - 1, k, k + 1, 2 * k, 3 * k] {
                check_case(ctx, &mut real, bl, &prog, base, 50, cap, 5000);
            }
        }
    }
    // the instruction set changes between two top-level runs (InstructionSet::add): run() works with the set as it
    // is now -- its outcome still equals single-stepping with a cache taken now (CODE.RAND draws from that cache)
    for k in 0..3 {
        real.iset.add(format!("LATE.{}", k), Instruction::new(tick(0)));
        real.icache = real.iset.cache();
        for prog in [
            Tree::L(vec![Tree::I(7), Tree::ins("CODE.RAND")]),
            Tree::L(vec![Tree::I(3), Tree::ins("CODE.RAND"), Tree::I(4), Tree::ins("CODE.RAND"), Tree::ins(&format!("LATE.{}", k))]),
        ] {
            // new names come from the `names` crate's own generator (not scripted): disabled
            let mut base = bs[0].1.clone();
            base.cfg.new_erc_name_probability = 0.0;
            base.bindings.insert("X".into(), Tree::I(1));
            check_case(ctx, &mut real, "no-new-names", &prog, &base, 50, 500, 5000);
        }
    }
    // grow, shrink, grow: the cap applies to each step against the size just before it, not against an earlier peak
    for k in 1..=4usize {
        let prog = Tree::L(vec![Tree::ins("GROW.I.4"), Tree::ins("GROW.F.3"), Tree::ins("INTEGER.FLUSH"), Tree::ins("FLOAT.FLUSH"), Tree::ins(&format!("GROW.B.{}", k)), Tree::ins("NOOP")]);
        for (bl, base) in &bs {
            for cap in [k - 1, k, 4, 5] {
                check_case(ctx, &mut real, bl, &prog, base, 50, cap, 5000);
            }
        }
    }
    // ... and a set that is used for a run while it holds a single instruction and is LOADED afterwards
    {
        let mut iset = pushr::push::instructions::InstructionSet::new();
        iset.add("ONLY.ONE".to_string(), Instruction::new(tick(0)));
        let icache = iset.cache();
        let mut r2 = Real { iset, icache };
        let mut base = bs[0].1.clone();
        base.cfg.new_erc_name_probability = 0.0;
        base.bindings.insert("X".into(), Tree::I(1));
        check_case(ctx, &mut r2, "single-instruction set", &Tree::L(vec![Tree::ins("ONLY.ONE"), Tree::I(5), Tree::ins("CODE.RAND")]), &base, 50, 500, 5000);
        r2.iset.load();
        r2.icache = r2.iset.cache();
        for prog in [Tree::L(vec![Tree::I(9), Tree::ins("CODE.RAND")]), Tree::L(vec![Tree::I(6), Tree::ins("CODE.RAND"), Tree::I(12), Tree::ins("CODE.RAND")])] {
            check_case(ctx, &mut r2, "set loaded after a run", &prog, &base, 50, 500, 5000);
        }
    }
    // extreme configuration values (limits "switched off" by a huge number, type boundaries of the fields)
    {
        let progs = [
            Tree::L((0..3).map(|_| Tree::ins("NOOP")).collect()),
            Tree::L(vec![Tree::ins("NOOP"), Tree::ins("GROW.I.3"), Tree::ins("TICK5"), Tree::ins("NOOP")]),
            Tree::L(vec![Tree::ins("EXEC.DUP"), Tree::L(vec![Tree::I(1), Tree::I(2)])]),
        ];
        let caps = [i32::MAX as usize - 1, i32::MAX as usize, i32::MAX as usize + 1, 3_000_000_000usize, u32::MAX as usize, (u32::MAX as usize) + 1, (u32::MAX as usize) + 2, usize::MAX / 2, usize::MAX - 1, usize::MAX, 500, 1000, 12];
        let limits = [i32::MIN, -1000, 50, 1000, i32::MAX - 1, i32::MAX];
        let tls = [3u64, 1000, u32::MAX as u64, u32::MAX as u64 + 1, i64::MAX as u64, u64::MAX];
        for prog in &progs {
            for (bl, base) in &bs {
                for cap in caps {
                    for limit in limits {
                        for tl in tls {
                            check_case(ctx, &mut real, bl, prog, base, limit, cap, tl);
                        }
                    }
                }
            }
        }
    }
    // growth: each of the nine counted stacks, k items pushed by one step, around every cap
    for (_s, name) in GROW_NAMES.iter().enumerate() {
        for k in 0..=8usize {
            // the growing step in the middle, as the last step (the one that empties EXEC) and as the only step
            for prog in [
                Tree::L(vec![Tree::ins("NOOP"), Tree::ins(&format!("GROW.{}.{}", name, k)), Tree::ins("NOOP")]),
                Tree::L(vec![Tree::ins("NOOP"), Tree::ins(&format!("GROW.{}.{}", name, k))]),
                Tree::ins(&format!("GROW.{}.{}", name, k)),
            ] {
                for (bl, base) in &bs {
                    for cap in [0usize, 1, 2, 5, 6] {
                        check_case(ctx, &mut real, bl, &prog, base, 50, cap, 5000);
                    }
                }
            }
        }
    }
    // a step on an empty EXEC stack reports completion and changes nothing
    for (bl, base) in &bs {
        let id = match ctx.take() {
            Some(id) => id,
            None => continue,
        };
        ctx.transitions += 1;
        let Real { iset, icache } = &mut real;
        let r = guarded(|| {
            let mut st = build(base);
            let done = PushInterpreter::step(&mut st, iset, icache);
            (done, observe(&st))
        });
        let (okey, v) = match r {
            Err(p) => (panic_class(&p), Verdict::fail("step", &panic_class(&p), p)),
            Ok((done, after)) => {
                let d = base.diff(&after);
                if !done {
                    ("notdone".to_string(), Verdict::fail("step", "empty-exec-not-done", "step on an empty EXEC stack returned false".into()))
                } else if !d.is_empty() {
                    ("changed".to_string(), Verdict::fail("step", "empty-exec-changes-state", format!("changed {:?}", d)))
                } else {
                    ("ok".to_string(), Verdict::Pass)
                }
            }
        };
        ctx.record(id, &okey, v, || format!("step on empty EXEC, {} base", bl));
    }
    // real-clock smoke case (labelled: decides nothing about the logic, only that the limit is wired to a clock)
    if let Some(id) = ctx.take() {
        ctx.transitions += 1;
        let Real { iset, .. } = &mut real;
        let t0 = std::time::Instant::now();
        let r = guarded(|| {
            let mut m = M::default();
            m.e = vec![Tree::L(vec![Tree::ins("EXEC.Y"), Tree::ins("NOOP")])];
            m.cfg.eval_push_limit = i32::MAX;
            m.cfg.eval_time_limit = 20;
            m.cfg.growth_cap = 1_000_000;
            let mut st = build(&m);
            PushInterpreter::run(&mut st, iset)
        });
        let wall = t0.elapsed().as_millis();
        let v = match r {
            Ok(PushInterpreterState::TimeLimitExceeded) if wall < 5_000 => Verdict::Pass,
            Ok(o) => Verdict::fail("run", "real-clock", format!("diverging program with a 20 ms limit returned {:?} after {} ms", o, wall)),
            Err(p) => Verdict::fail("run", &panic_class(&p), p),
        };
        ctx.record(id, "real-clock-smoke", v, || "EXEC.Y loop under eval_time_limit = 20 ms on the real clock".to_string());
    }
}

pub fn run(ctx: &mut Ctx) {
    match ctx.family.as_str() {
        "programs" => programs_family(ctx),
        "ladder" => ladder_family(ctx),
        f => panic!("unknown family {}", f),
    }
}
