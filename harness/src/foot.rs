//! Documented footprint of every registered instruction: which stacks it takes
//! operands from (and how many it needs before it may act) and which components
//! it may change. Written from the doc comments in src/push/*.rs, not from the
//! function bodies. Used by C10 (confinement / unfired rule), by the operand
//! generators of the sweeps, and by the reference model's common "unfired" test.

use crate::model::Comp;
use crate::model::Comp::*;

#[derive(Clone, Debug)]
pub struct Foot {
    /// (stack, number of items that must be present)
    pub ops: Vec<(Comp, usize)>,
    /// components that may change when the instruction applies (besides operand stacks)
    pub res: Vec<Comp>,
    /// uses the random number generator / host (excluded from deterministic oracles)
    pub random: bool,
}

fn f(ops: &[(Comp, usize)], res: &[Comp]) -> Option<Foot> {
    Some(Foot { ops: ops.to_vec(), res: res.to_vec(), random: false })
}
fn fr(ops: &[(Comp, usize)], res: &[Comp]) -> Option<Foot> {
    Some(Foot { ops: ops.to_vec(), res: res.to_vec(), random: true })
}

pub const STACK_TYPES: [(&str, Comp, i32); 9] = [
    ("BOOLEAN", B, 1),
    ("INTEGER", I, 9),
    ("FLOAT", F, 5),
    ("NAME", N, 11),
    ("CODE", C, 3),
    ("EXEC", E, 4),
    ("BOOLVECTOR", BV, 2),
    ("INTVECTOR", IV, 10),
    ("FLOATVECTOR", FV, 6),
];

pub fn stack_type(prefix: &str) -> Option<(Comp, i32)> {
    STACK_TYPES.iter().find(|(p, _, _)| *p == prefix).map(|(_, c, id)| (*c, *id))
}

pub fn foot(name: &str) -> Option<Foot> {
    let (prefix, op) = match name.split_once('.') {
        Some(x) => x,
        None => {
            return if name == "NOOP" { f(&[], &[]) } else { None };
        }
    };
    // generic stack manipulation
    if let Some((t, _)) = stack_type(prefix) {
        let with_index = |need_t: usize| -> Vec<(Comp, usize)> {
            if t == I {
                vec![(I, 1 + need_t)]
            } else {
                vec![(I, 1), (t, need_t)]
            }
        };
        match op {
            "DUP" => return f(&[(t, 1)], &[t]),
            "POP" => return f(&[(t, 1)], &[]),
            "SWAP" => return f(&[(t, 2)], &[t]),
            "ROT" => return f(&[(t, 3)], &[t]),
            "YANK" | "YANKDUP" | "SHOVE" => return Some(Foot { ops: with_index(1), res: vec![t], random: false }),
            "FLUSH" => return f(&[(t, 0)], &[t]),
            "STACKDEPTH" => return f(&[], &[I]),
            "ID" => return f(&[], &[I]),
            "DEFINE" if t != N => return f(&[(N, 1), (t, 1)], &[Bind]),
            _ => {}
        }
    }
    match name {
        // ---- BOOLEAN
        "BOOLEAN.=" | "BOOLEAN.AND" | "BOOLEAN.OR" => f(&[(B, 2)], &[B]),
        "BOOLEAN.NOT" => f(&[(B, 1)], &[B]),
        "BOOLEAN.FROMFLOAT" => f(&[(F, 1)], &[B]),
        "BOOLEAN.FROMINTEGER" => f(&[(I, 1)], &[B]),
        "BOOLEAN.RAND" => fr(&[], &[B]),
        // ---- INTEGER
        "INTEGER.+" | "INTEGER.-" | "INTEGER.*" | "INTEGER./" | "INTEGER.%" | "INTEGER.MAX" | "INTEGER.MIN" => f(&[(I, 2)], &[I]),
        "INTEGER.<" | "INTEGER.=" | "INTEGER.>" => f(&[(I, 2)], &[B]),
        "INTEGER.ABS" => f(&[(I, 1)], &[I]),
        "INTEGER.DDUP" => f(&[(I, 2)], &[I]),
        "INTEGER.FROMBOOLEAN" => f(&[(B, 1)], &[I]),
        "INTEGER.FROMFLOAT" => f(&[(F, 1)], &[I]),
        "INTEGER.RAND" => fr(&[], &[I]),
        // ---- FLOAT
        "FLOAT.+" | "FLOAT.-" | "FLOAT.*" | "FLOAT./" | "FLOAT.%" | "FLOAT.MAX" | "FLOAT.MIN" => f(&[(F, 2)], &[F]),
        "FLOAT.<" | "FLOAT.=" | "FLOAT.>" => f(&[(F, 2)], &[B]),
        "FLOAT.SIN" | "FLOAT.COS" | "FLOAT.TAN" | "FLOAT.EXP" => f(&[(F, 1)], &[F]),
        "FLOAT.FROMBOOLEAN" => f(&[(B, 1)], &[F]),
        "FLOAT.FROMINTEGER" => f(&[(I, 1)], &[F]),
        "FLOAT.RAND" => fr(&[], &[F]),
        // ---- NAME
        "NAME.=" => f(&[(N, 2)], &[B]),
        "NAME.CAT" => f(&[(N, 2)], &[N]),
        "NAME.QUOTE" => f(&[], &[Quote]),
        "NAME.SEND" => f(&[], &[Send]),
        "NAME.RAND" | "NAME.RANDBOUNDNAME" => fr(&[], &[N]),
        // ---- CODE
        "CODE.=" => f(&[(C, 2)], &[B]),
        "CODE.APPEND" | "CODE.CONS" => f(&[(C, 2)], &[C]),
        "CODE.ATOM" | "CODE.NULL" => f(&[(C, 1)], &[B]),
        "CODE.CAR" | "CODE.CDR" => f(&[(C, 1)], &[C]),
        "CODE.CONTAINER" | "CODE.LIST" => f(&[(C, 2)], &[C]),
        "CODE.CONTAINS" | "CODE.MEMBER" => f(&[(C, 2)], &[B]),
        "CODE.DEFINITION" => f(&[(N, 1)], &[C]),
        "CODE.DISCREPANCY" | "CODE.POSITION" => f(&[(C, 2)], &[I]),
        "CODE.DO" | "CODE.DO*" => f(&[(C, 1)], &[E]),
        "CODE.LOOP" => f(&[(C, 1), (X, 1)], &[E, X]),
        "CODE.EXTRACT" | "CODE.NTH" => f(&[(I, 1), (C, 1)], &[C]),
        "CODE.FROMBOOLEAN" => f(&[(B, 1)], &[C]),
        "CODE.FROMFLOAT" => f(&[(F, 1)], &[C]),
        "CODE.FROMINTEGER" => f(&[(I, 1)], &[C]),
        "CODE.FROMNAME" => f(&[(N, 1)], &[C]),
        "CODE.IF" => f(&[(C, 2), (B, 1)], &[E]),
        "CODE.INSERT" => f(&[(I, 1), (C, 2)], &[C]),
        "CODE.LENGTH" | "CODE.SIZE" => f(&[(C, 1)], &[I]),
        "CODE.NOOP" => f(&[], &[]),
        "CODE.PRINT" => f(&[(C, 1)], &[N]),
        "CODE.QUOTE" => f(&[(E, 1)], &[C]),
        "CODE.RAND" => fr(&[(I, 1)], &[C]),
        "CODE.SUBST" => f(&[(C, 3)], &[C]),
        // ---- EXEC
        "EXEC.=" => f(&[(E, 2)], &[B]),
        "EXEC.CMD" => fr(&[(I, 1), (N, 1)], &[]),
        "EXEC.IF" => f(&[(E, 2), (B, 1)], &[E]),
        "EXEC.K" => f(&[(E, 2)], &[E]),
        "EXEC.S" => f(&[(E, 3)], &[E]),
        "EXEC.Y" => f(&[(E, 1)], &[E]),
        "EXEC.LOOP" => f(&[(E, 1), (X, 1)], &[E, X]),
        // ---- INDEX
        "INDEX.CURRENT" | "INDEX.DESTINATION" => f(&[(X, 1)], &[I]),
        "INDEX.DEFINE" => f(&[(I, 1)], &[X]),
        "INDEX.FLUSH" => f(&[(X, 0)], &[X]),
        "INDEX.INCREASE" => f(&[(X, 1)], &[X]),
        "INDEX.POP" => f(&[(X, 1)], &[]),
        // ---- BOOLVECTOR
        "BOOLVECTOR.GET" => f(&[(I, 1), (BV, 1)], &[B]),
        "BOOLVECTOR.SET" => f(&[(I, 1), (B, 1), (BV, 1)], &[BV]),
        "BOOLVECTOR.AND" | "BOOLVECTOR.OR" => f(&[(BV, 2), (I, 1)], &[BV]),
        "BOOLVECTOR.NOT" => f(&[(BV, 1), (I, 1)], &[BV]),
        "BOOLVECTOR.COUNT" | "BOOLVECTOR.LENGTH" => f(&[(BV, 1)], &[I]),
        "BOOLVECTOR.EQUAL" => f(&[(BV, 2)], &[B]),
        "BOOLVECTOR.ONES" | "BOOLVECTOR.ZEROS" => f(&[(I, 1)], &[BV]),
        "BOOLVECTOR.RAND" => fr(&[(I, 1), (F, 1)], &[BV]),
        "BOOLVECTOR.ROTATE" => f(&[(B, 1), (BV, 1)], &[BV]),
        "BOOLVECTOR.SORT*ASC" | "BOOLVECTOR.SORT*DESC" => f(&[(BV, 1)], &[BV]),
        // ---- INTVECTOR
        "INTVECTOR.APPEND" | "INTVECTOR.REMOVE" => f(&[(IV, 1), (I, 1)], &[IV]),
        "INTVECTOR.BOOLINDEX" => f(&[(BV, 1)], &[IV]),
        "INTVECTOR.GET" => f(&[(I, 1), (IV, 1)], &[I]),
        "INTVECTOR.SET" => f(&[(I, 2), (IV, 1)], &[IV]),
        "INTVECTOR.+" | "INTVECTOR.-" | "INTVECTOR.*" | "INTVECTOR./" => f(&[(IV, 2), (I, 1)], &[IV]),
        "INTVECTOR.CONTAINS" => f(&[(I, 1), (IV, 1)], &[B]),
        "INTVECTOR.EMPTY" => f(&[], &[IV]),
        "INTVECTOR.EQUAL" => f(&[(IV, 2)], &[B]),
        "INTVECTOR.FROMINT" => f(&[(I, 1)], &[IV]),
        "INTVECTOR.ONES" | "INTVECTOR.ZEROS" => f(&[(I, 1)], &[IV]),
        "INTVECTOR.MEAN" => f(&[(IV, 1)], &[F]),
        "INTVECTOR.LENGTH" | "INTVECTOR.SUM" => f(&[(IV, 1)], &[I]),
        "INTVECTOR.LOOP" => f(&[(IV, 1), (E, 1)], &[E, I]),
        "INTVECTOR.RAND" => fr(&[(I, 3)], &[IV]),
        "INTVECTOR.ROTATE" => f(&[(I, 1), (IV, 1)], &[IV]),
        "INTVECTOR.SORT*ASC" | "INTVECTOR.SORT*DESC" => f(&[(IV, 1)], &[IV]),
        // documented: "If no INTVECTOR item exists, a new one will be created"
        "INTVECTOR.SET*INSERT" => f(&[(I, 1)], &[IV]),
        // ---- FLOATVECTOR
        "FLOATVECTOR.GET" => f(&[(I, 1), (FV, 1)], &[F]),
        "FLOATVECTOR.SET" => f(&[(I, 1), (F, 1), (FV, 1)], &[FV]),
        "FLOATVECTOR.+" | "FLOATVECTOR.-" | "FLOATVECTOR.*" | "FLOATVECTOR./" => f(&[(FV, 2), (I, 1)], &[FV]),
        "FLOATVECTOR.*SCALAR" | "FLOATVECTOR.ROTATE" => f(&[(F, 1), (FV, 1)], &[FV]),
        "FLOATVECTOR.APPEND" => f(&[(FV, 1), (F, 1)], &[FV]),
        "FLOATVECTOR.EMPTY" => f(&[], &[FV]),
        "FLOATVECTOR.EQUAL" => f(&[(FV, 2)], &[B]),
        "FLOATVECTOR.LENGTH" => f(&[(FV, 1)], &[I]),
        "FLOATVECTOR.MEAN" | "FLOATVECTOR.SUM" => f(&[(FV, 1)], &[F]),
        "FLOATVECTOR.ONES" | "FLOATVECTOR.ZEROS" => f(&[(I, 1)], &[FV]),
        "FLOATVECTOR.RAND" => fr(&[(I, 1), (F, 2)], &[FV]),
        "FLOATVECTOR.SINE" => f(&[(F, 3), (I, 1)], &[FV]),
        "FLOATVECTOR.SORT*ASC" | "FLOATVECTOR.SORT*DESC" => f(&[(FV, 1)], &[FV]),
        // ---- IO
        "INPUT.AVAILABLE" => f(&[], &[B]),
        "INPUT.GET" => f(&[(I, 1), (In, 1)], &[B]),
        "INPUT.NEXT" => f(&[(In, 1)], &[]),
        "INPUT.READ" => f(&[(In, 1)], &[BV, IV]),
        "INPUT.STACKDEPTH" | "OUTPUT.STACKDEPTH" | "GRAPH.STACKDEPTH" => f(&[], &[I]),
        "OUTPUT.FLUSH" => f(&[(Out, 0)], &[Out]),
        "OUTPUT.WRITE" => f(&[(BV, 1), (IV, 1)], &[Out]),
        // ---- GRAPH (the graph stack is never popped: Gr entries are "must be present")
        "GRAPH.ADD" => f(&[], &[Gr]),
        "GRAPH.DUP" => f(&[(Gr, 1)], &[Gr]),
        "GRAPH.NODE*ADD" => f(&[(Gr, 1), (I, 1)], &[Gr, I]),
        "GRAPH.NODE*GETSTATE" => f(&[(Gr, 1), (I, 1)], &[I]),
        "GRAPH.NODE*SETSTATE" => f(&[(Gr, 1), (I, 2)], &[Gr]),
        "GRAPH.NODE*HISTORY" => f(&[(I, 2), (Gr, 1)], &[I]),
        "GRAPH.NODE*STATESWITCH" => f(&[(Gr, 1), (IV, 1), (BV, 1), (I, 2)], &[Gr]),
        "GRAPH.NODES" => f(&[(Gr, 1), (IV, 1)], &[IV]),
        "GRAPH.NODES*HISTORY" => f(&[(I, 1), (Gr, 1), (IV, 1)], &[IV]),
        "GRAPH.NODE*NEIGHBORS" | "GRAPH.NODE*PREDECESSORS" | "GRAPH.NODE*SUCCESSORS" => f(&[(Gr, 1), (IV, 1), (I, 1)], &[IV]),
        "GRAPH.EDGE*ADD" | "GRAPH.EDGE*SETWEIGHT" => f(&[(Gr, 1), (F, 1), (I, 2)], &[Gr]),
        "GRAPH.EDGE*GETWEIGHT" => f(&[(Gr, 1), (I, 2)], &[F]),
        "GRAPH.EDGE*HISTORY" => f(&[(I, 3), (Gr, 1)], &[F]),
        "GRAPH.PRINT" => f(&[(Gr, 1)], &[N]),
        "GRAPH.PRINT*DIFF" => f(&[(Gr, 2)], &[N]),
        // ---- LIST (LIST.ADD / SET may pop from any stack named by the id vector)
        "LIST.ADD" => f(&[(IV, 1)], &[C, B, BV, E, F, FV, I, N]),
        "LIST.SET" => f(&[(I, 1), (IV, 1)], &[C, B, BV, E, F, FV, N]),
        "LIST.REMOVE" => f(&[(I, 1), (C, 1)], &[C]),
        "LIST.GET" => f(&[(I, 1), (C, 1)], &[E]),
        "LIST.BVAL" => f(&[(I, 2), (C, 1)], &[B]),
        "LIST.IVAL" => f(&[(I, 2), (C, 1)], &[I]),
        "LIST.FVAL" => f(&[(I, 2), (C, 1)], &[F]),
        "LIST.NEIGHBOR*IDS" => f(&[(I, 3), (F, 1)], &[IV]),
        "LIST.NEIGHBOR*BVALS" => f(&[(I, 4), (F, 1)], &[BV]),
        "LIST.NEIGHBOR*IVALS" => f(&[(I, 4), (F, 1)], &[IV]),
        "LIST.NEIGHBOR*FVALS" => f(&[(I, 4), (F, 1)], &[FV]),
        _ => None,
    }
}

impl Foot {
    pub fn allowed(&self) -> Vec<Comp> {
        let mut v: Vec<Comp> = self.ops.iter().map(|(c, _)| *c).collect();
        v.extend(self.res.iter().copied());
        v.sort();
        v.dedup();
        v
    }
}
