//! Alphabets (DESIGN.md §3.1) and operand-stack generators.

use crate::model::{Comp, Msg, Tree, G, M};

#[derive(Clone, Debug)]
pub enum Frag {
    B(Vec<bool>),
    I(Vec<i32>),
    F(Vec<f32>),
    N(Vec<String>),
    C(Vec<Tree>),
    E(Vec<Tree>),
    BV(Vec<Vec<bool>>),
    IV(Vec<Vec<i32>>),
    FV(Vec<Vec<f32>>),
    X(Vec<(usize, usize)>),
    In(Vec<Msg>),
    Out(Vec<Msg>),
    Gr(Vec<G>),
}

pub fn apply(m: &mut M, f: &Frag) {
    match f {
        Frag::B(v) => m.b = v.clone(),
        Frag::I(v) => m.i = v.clone(),
        Frag::F(v) => m.f = v.clone(),
        Frag::N(v) => m.n = v.clone(),
        Frag::C(v) => m.c = v.clone(),
        Frag::E(v) => m.e = v.clone(),
        Frag::BV(v) => m.bv = v.clone(),
        Frag::IV(v) => m.iv = v.clone(),
        Frag::FV(v) => m.fv = v.clone(),
        Frag::X(v) => m.x = v.clone(),
        Frag::In(v) => m.input = v.clone(),
        Frag::Out(v) => m.output = v.clone(),
        Frag::Gr(v) => m.graphs = v.clone(),
    }
}

#[derive(Clone, Debug)]
pub struct Alpha {
    pub bools: Vec<bool>,
    pub ints: Vec<i32>,
    pub floats: Vec<f32>,
    pub names: Vec<String>,
    pub codes: Vec<Tree>,
    pub bvs: Vec<Vec<bool>>,
    pub ivs: Vec<Vec<i32>>,
    pub fvs: Vec<Vec<f32>>,
    pub idxs: Vec<(usize, usize)>,
    pub msgs: Vec<Msg>,
    pub graphs: Vec<G>,
    /// also generate each operand tuple with two distinct bystanders below it
    pub deep: bool,
}

pub const IMIN: i32 = i32::MIN;
pub const IMAX: i32 = i32::MAX;

pub fn ints_boundary(thorough: bool) -> Vec<i32> {
    let mut v = vec![IMIN, IMIN + 1, -3, -1, 0, 1, 2, 3, 7, IMAX - 1, IMAX];
    if thorough {
        // more interior values and the boundaries of the shortcuts visible in the code / in f32 and i16
        v.extend([-2, 4, 5, 100, 65536, -65536, 46340, 46341, -46341, 32767, -32768, 16_777_216, 16_777_217, -16_777_217, 1_073_741_824, -1_073_741_824]);
    }
    v
}
pub fn floats_boundary(thorough: bool) -> Vec<f32> {
    let mut v = vec![f32::NEG_INFINITY, f32::MIN, -2.5, -1.0, -0.0, 0.0, f32::MIN_POSITIVE, 0.5, 1.0, 2.5, f32::MAX, f32::INFINITY, f32::NAN];
    v.extend(near_floats().into_iter().filter(|x| *x != 1.0));
    // subnormals (non-zero, below MIN_POSITIVE)
    v.extend([1e-40, -1e-40]);
    if thorough {
        v.extend([0.0004, 1e10, -0.5, 3.0e9, -3.0e9, 1e-45, -1e-45, 16_777_216.0, 2_147_483_648.0, -2_147_483_904.0, 0.1, 3.1415927, 1e38, -1e-38, 2_147_483_520.0, 0.99999994]);
    }
    v
}
/// pairs of floats that a tolerant or textual comparison would merge: one ulp apart (also two distinct
/// whole numbers), equal to three decimals (the `{:.3}` print), equal to one decimal (the `{:.1}` print)
pub fn near_floats() -> Vec<f32> {
    vec![1.0, f32::from_bits(1.0f32.to_bits() + 1), 1.0001, 1.0004, 1.04, 16_777_216.0, 16_777_218.0, 0.7, f32::from_bits(0.7f32.to_bits() + 1)]
}
pub fn names() -> Vec<String> {
    // short names, and long ones that differ only in their tail / in one inner byte (word-wise comparisons)
    ["A", "B", "true", "variable_1", "variable_2", "abcdefgh", "abcdefgX", "abcdefghijklmnop1", "abcdefghijklmnop2", "Xbcdefghijklmnop1"].iter().map(|s| s.to_string()).collect()
}
pub fn code_atoms() -> Vec<Tree> {
    vec![Tree::I(1), Tree::I(2), Tree::I(11), Tree::F(1.5), Tree::B(true), Tree::name("A"), Tree::ins("NOOP"), Tree::ins("INTEGER.+")]
}
pub fn code_small() -> Vec<Tree> {
    vec![
        Tree::I(1),
        Tree::name("A"),
        Tree::ins("NOOP"),
        Tree::L(vec![]),
        Tree::L(vec![Tree::I(1), Tree::I(2)]),
        Tree::L(vec![Tree::L(vec![Tree::I(1)]), Tree::F(1.5), Tree::B(true)]),
    ]
}
pub fn bvs_pool(maxlen: usize) -> Vec<Vec<bool>> {
    let mut out = vec![vec![]];
    let mut cur: Vec<Vec<bool>> = vec![vec![]];
    for _ in 0..maxlen {
        let mut next = vec![];
        for v in &cur {
            for b in [false, true] {
                let mut w = v.clone();
                w.push(b);
                next.push(w);
            }
        }
        out.extend(next.iter().cloned());
        cur = next;
    }
    out
}
pub fn ivs_pool(maxlen: usize) -> Vec<Vec<i32>> {
    let mut out: Vec<Vec<i32>> = vec![vec![]];
    for len in 1..=maxlen {
        out.push((0..len).map(|k| 10 + 3 * k as i32).collect()); // ramp of pairwise distinct values
        out.push((0..len).map(|k| if k % 2 == 0 { IMAX } else { IMIN }).collect()); // boundary pattern
        out.push((0..len).map(|k| if k == len - 1 { 0 } else { -2 - k as i32 }).collect()); // contains a zero
        out.push((0..len).map(|k| 1 + (k as i32 % 2)).collect()); // small, repeating
        if len >= 2 {
            out.push((0..len).map(|k| if k == 0 { 0 } else { 5 + k as i32 }).collect()); // a zero followed by non-zeros
        }
    }
    out
}
pub fn fvs_pool(maxlen: usize) -> Vec<Vec<f32>> {
    let mut out: Vec<Vec<f32>> = vec![vec![]];
    if maxlen >= 2 {
        let n = near_floats();
        out.push(vec![n[0], n[1]]);
        out.push(vec![n[3], n[2]]);
        out.push(vec![1e-40, 4.0]);
        out.push(vec![2.0, -1e-40]);
    }
    for len in 1..=maxlen {
        out.push((0..len).map(|k| 1.5 + k as f32).collect());
        out.push((0..len).map(|k| if k % 2 == 0 { f32::INFINITY } else { f32::NAN }).collect());
        out.push((0..len).map(|k| if k == len - 1 { 0.0 } else { -2.0 - k as f32 }).collect());
        out.push((0..len).map(|k| if k % 2 == 0 { f32::MAX } else { -0.0 }).collect());
        if len >= 2 {
            out.push((0..len).map(|k| if k == 0 { 0.0 } else { 5.0 + k as f32 }).collect()); // a zero followed by non-zeros
        }
    }
    out
}
pub fn msgs() -> Vec<Msg> {
    vec![
        Msg { header: vec![], body: vec![] },
        Msg { header: vec![1], body: vec![true] },
        Msg { header: vec![1, 2], body: vec![false, true, true] },
    ]
}
pub fn graph_small() -> G {
    // 1 -> 2 (0.5), 2 -> 3 (1.5), 3 -> 1 (2.5); states 0,1,0
    let mut g = G::default();
    g.nodes.insert(1, 0);
    g.nodes.insert(2, 1);
    g.nodes.insert(3, 0);
    g.edges.insert(2, vec![(1, 0.5)]);
    g.edges.insert(3, vec![(2, 1.5)]);
    g.edges.insert(1, vec![(3, 2.5)]);
    g
}
pub fn graph_other() -> G {
    let mut g = G::default();
    g.nodes.insert(1, 7);
    g.nodes.insert(2, 1);
    g.edges.insert(2, vec![(1, 0.25)]);
    g
}

impl Alpha {
    pub fn boundary(thorough: bool) -> Alpha {
        Alpha {
            bools: vec![true, false],
            ints: ints_boundary(thorough),
            floats: floats_boundary(thorough),
            names: names(),
            codes: code_small(),
            bvs: bvs_pool(2),
            ivs: ivs_pool(2),
            fvs: fvs_pool(2),
            idxs: vec![(0, 0), (0, 2), (1, 2), (2, 2)],
            msgs: msgs(),
            graphs: vec![G::default(), graph_small(), graph_other()],
            deep: true,
        }
    }
    /// a few values per kind: used when an instruction has many operand stacks
    pub fn tiny() -> Alpha {
        Alpha {
            bools: vec![true, false],
            ints: vec![IMIN, -1, 0, 1, 2, IMAX],
            floats: vec![-1.0, 0.0, 0.5, f32::INFINITY, f32::NAN],
            names: vec!["A".to_string(), "true".to_string(), "B".to_string()],
            codes: vec![Tree::I(1), Tree::L(vec![]), Tree::L(vec![Tree::L(vec![Tree::I(1)]), Tree::F(1.5), Tree::B(true)])],
            bvs: vec![vec![], vec![true], vec![false, true, true]],
            ivs: vec![vec![], vec![1], vec![2, 1, 0], vec![IMAX, IMIN], vec![0, 3]],
            fvs: vec![vec![], vec![0.0], vec![1.5, f32::NAN, -2.0], vec![0.0, 2.0]],
            idxs: vec![(0, 0), (1, 2)],
            msgs: msgs(),
            graphs: vec![G::default(), graph_small()],
            deep: false,
        }
    }
}

pub fn graph_large() -> G {
    // 12 nodes on a ring with chords to node 1 (in-degree 6 at node 1)
    let mut g = G::default();
    for k in 1..=12usize {
        g.nodes.insert(k, (k % 3) as i32);
    }
    for k in 1..=12usize {
        let d = k % 12 + 1;
        g.edges.entry(d).or_default().push((k, k as f32 * 0.5));
        if k % 2 == 1 && k != 1 && d != 1 {
            g.edges.entry(1).or_default().push((k, 0.25));
        }
    }
    g
}

impl Alpha {
    /// few but LARGE values per kind (lengths and sizes around 16, 32, 64, 100): instances beyond the
    /// enumerated range, where chunked / thresholded / fast-path code first differs
    pub fn large() -> Alpha {
        let wide = Tree::L((0..33).map(|k| if k % 4 == 1 { Tree::L(vec![Tree::I(k), Tree::L(vec![Tree::name("A")])]) } else { Tree::I(k) }).collect());
        let mut nest = Tree::L(vec![Tree::I(0)]);
        for k in 1..20 {
            nest = Tree::L(vec![Tree::I(k), nest, Tree::F(k as f32)]);
        }
        Alpha {
            bools: vec![true, false],
            ints: vec![IMIN, -33, -1, 0, 1, 9, 10, 17, 33, 101, IMAX],
            floats: vec![0.0, 0.5, -2.5, f32::NAN],
            names: vec!["abcdefghijklmnop1".to_string(), "abcdefghijklmnop2".to_string()],
            codes: vec![wide, nest, Tree::L((0..101).map(|_| Tree::ins("NOOP")).collect())],
            bvs: vec![(0..33).map(|k| k % 3 == 0).collect(), (0..70).map(|k| (k * 37) % 5 < 2).collect()],
            ivs: vec![(0..33).map(|k| ((k * 37) % 33) as i32 - 5).collect(), (0..70).map(|k| 100 + 7 * k as i32).collect()],
            fvs: vec![
                (0..24).map(|k| if k == 4 { f32::NAN } else { (24 - k) as f32 }).collect(),
                (0..70).map(|k| if k == 35 { f32::INFINITY } else if k % 7 == 3 { f32::NAN } else { ((k * 37) % 70) as f32 }).collect(),
                (0..33).map(|k| 1.5 + k as f32).collect(),
            ],
            idxs: vec![(0, 0), (5, 100)],
            msgs: vec![Msg { header: (0..20).collect(), body: (0..40).map(|k| k % 3 == 0).collect() }, Msg { header: vec![1], body: vec![true] }, Msg { header: (0..9).collect(), body: (0..17).map(|k| k % 2 == 0).collect() }],
            graphs: vec![graph_small(), graph_large()],
            deep: false,
        }
    }
}

impl Alpha {
    /// the large-instance alphabet with fewer values per kind, for instructions with many operands
    pub fn large_reduced() -> Alpha {
        let mut a = Alpha::large();
        a.ints = vec![IMIN, -1, 0, 10, 33, IMAX];
        a.floats = vec![0.5, f32::NAN];
        a.names.truncate(1);
        a.codes.truncate(2);
        a.bvs.truncate(1);
        a.ivs.truncate(1);
        a.fvs.truncate(2);
        a
    }
}

fn tuples<T: Clone>(pool: &[T], k: usize) -> Vec<Vec<T>> {
    let mut out: Vec<Vec<T>> = vec![vec![]];
    for _ in 0..k {
        let mut next = Vec::with_capacity(out.len() * pool.len());
        for t in &out {
            for p in pool {
                let mut w = t.clone();
                w.push(p.clone());
                next.push(w);
            }
        }
        out = next;
    }
    out
}

fn with_depths<T: Clone>(pool: &[T], need: usize, deep: bool, bystanders: &[T]) -> Vec<Vec<T>> {
    let mut out = tuples(pool, need);
    if deep && !bystanders.is_empty() {
        let extra: Vec<Vec<T>> = out
            .iter()
            .map(|t| {
                let mut w = t.clone();
                w.extend(bystanders.iter().cloned());
                w
            })
            .collect();
        // a deep stack below the operands (8 more items): every fourth operand tuple
        let deeper: Vec<Vec<T>> = out
            .iter()
            .step_by(4)
            .map(|t| {
                let mut w = t.clone();
                for _ in 0..4 {
                    w.extend(bystanders.iter().cloned());
                }
                w
            })
            .collect();
        out.extend(extra);
        out.extend(deeper);
    }
    out
}

/// All alternatives for one operand stack that holds at least `need` items
/// (top first), drawn from the alphabet.
pub fn frags(comp: Comp, need: usize, a: &Alpha) -> Vec<Frag> {
    match comp {
        Comp::B => with_depths(&a.bools, need, a.deep, &[true, false]).into_iter().map(Frag::B).collect(),
        Comp::I => with_depths(&a.ints, need, a.deep, &[41, 42]).into_iter().map(Frag::I).collect(),
        Comp::F => with_depths(&a.floats, need, a.deep, &[41.5, 42.5]).into_iter().map(Frag::F).collect(),
        Comp::N => with_depths(&a.names, need, a.deep, &["P".to_string(), "Q".to_string()]).into_iter().map(Frag::N).collect(),
        Comp::C => with_depths(&a.codes, need, a.deep, &[Tree::I(41), Tree::L(vec![Tree::I(42)])]).into_iter().map(Frag::C).collect(),
        Comp::E => with_depths(&a.codes, need, a.deep, &[Tree::I(41), Tree::L(vec![Tree::I(42)])]).into_iter().map(Frag::E).collect(),
        Comp::BV => with_depths(&a.bvs, need, a.deep, &[vec![true, true, false, true]]).into_iter().map(Frag::BV).collect(),
        Comp::IV => with_depths(&a.ivs, need, a.deep, &[vec![41, 42, 43, 44]]).into_iter().map(Frag::IV).collect(),
        Comp::FV => with_depths(&a.fvs, need, a.deep, &[vec![41.5, 42.5, 43.5, 44.5]]).into_iter().map(Frag::FV).collect(),
        Comp::X => with_depths(&a.idxs, need, a.deep, &[(3, 9)]).into_iter().map(Frag::X).collect(),
        Comp::In => {
            // queue contents with at least `need` messages, oldest first
            let mut v = vec![];
            for first in &a.msgs {
                v.push(Frag::In(vec![first.clone()]));
                v.push(Frag::In(vec![first.clone(), a.msgs[1].clone()]));
            }
            if need == 0 {
                v.push(Frag::In(vec![]));
            }
            v
        }
        Comp::Out => vec![Frag::Out(vec![]), Frag::Out(vec![a.msgs[1].clone()]), Frag::Out(vec![a.msgs[1].clone(), a.msgs[2].clone(), a.msgs[0].clone()])],
        Comp::Gr => {
            let mut v = vec![];
            for g in &a.graphs {
                v.push(Frag::Gr(vec![g.clone()]));
                v.push(Frag::Gr(vec![g.clone(), graph_other()]));
            }
            v.retain(|f| if let Frag::Gr(x) = f { x.len() >= need } else { true });
            v
        }
        _ => vec![],
    }
}

/// A stack of `depth` (< need) items: the "operand missing" alternatives.
pub fn short_frag(comp: Comp, depth: usize, a: &Alpha) -> Frag {
    fn take<T: Clone>(pool: &[T], d: usize) -> Vec<T> {
        (0..d).map(|k| pool[(k + 1) % pool.len()].clone()).collect()
    }
    match comp {
        Comp::B => Frag::B(take(&a.bools, depth)),
        Comp::I => Frag::I(take(&[1, 2, 0, 3], depth)),
        Comp::F => Frag::F(take(&[1.5, 2.5, 0.5], depth)),
        Comp::N => Frag::N(take(&a.names, depth)),
        Comp::C => Frag::C(take(&a.codes, depth)),
        Comp::E => Frag::E(take(&a.codes, depth)),
        Comp::BV => Frag::BV(take(&[vec![true, false], vec![false]], depth)),
        Comp::IV => Frag::IV(take(&[vec![1, 2], vec![3]], depth)),
        Comp::FV => Frag::FV(take(&[vec![1.5, 2.5], vec![3.5]], depth)),
        Comp::X => Frag::X(take(&a.idxs, depth)),
        Comp::In => Frag::In(take(&a.msgs, depth)),
        Comp::Out => Frag::Out(take(&a.msgs, depth)),
        Comp::Gr => Frag::Gr(take(&a.graphs, depth)),
        _ => Frag::B(vec![]),
    }
}

/// every component holds recognisable content
pub fn populated() -> M {
    let mut m = M::default();
    m.b = vec![true, false, true];
    m.i = vec![31, 32, 33, 34];
    m.f = vec![31.5, 32.5, 33.5];
    m.n = vec!["N1".into(), "N2".into(), "N3".into()];
    m.c = vec![Tree::L(vec![Tree::I(51), Tree::L(vec![Tree::B(false), Tree::F(5.5)])]), Tree::I(52), Tree::name("N9"), Tree::ins("NOOP")];
    m.e = vec![Tree::I(61), Tree::L(vec![Tree::I(62)]), Tree::ins("NOOP"), Tree::name("N8")];
    m.bv = vec![vec![true, false, false], vec![false], vec![true, true]];
    m.iv = vec![vec![71, 72, 73], vec![74], vec![9, 9, 1]];
    m.fv = vec![vec![7.5, 8.5], vec![9.5], vec![1.25, 2.25, 3.25]];
    m.x = vec![(1, 3), (0, 2)];
    m.input = vec![Msg { header: vec![81], body: vec![true, false] }, Msg { header: vec![82], body: vec![false] }];
    m.output = vec![Msg { header: vec![91], body: vec![true] }];
    m.graphs = vec![graph_small(), graph_other()];
    m.bindings.insert("BOUND1".into(), Tree::I(5));
    m.bindings.insert("BOUND2".into(), Tree::L(vec![Tree::I(6)]));
    m
}

/// instructions whose INTEGER operand sizes an allocation (resource envelope: C15)
pub fn size_like(name: &str) -> bool {
    name.ends_with(".ONES")
        || name.ends_with(".ZEROS")
        || name == "BOOLVECTOR.RAND"
        || name == "INTVECTOR.RAND"
        || name == "FLOATVECTOR.RAND"
        || name == "FLOATVECTOR.SINE"
        || name.starts_with("LIST.NEIGHBOR")
}
