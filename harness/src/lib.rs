pub mod c16;
pub mod c17;
pub mod core;
pub mod foot;
pub mod known;
pub mod model;
pub mod refmodel;
pub mod treeops;
