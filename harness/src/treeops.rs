//! Reference functions on code trees: depth-first point indexing and the list
//! surgery built on it. Element 0 of a list is the first printed; the whole tree
//! is point 0; points are numbered in depth-first pre-order.

use crate::model::Tree;

pub fn as_list(t: &Tree) -> Vec<Tree> {
    match t {
        Tree::L(items) => items.clone(),
        other => vec![other.clone()],
    }
}

/// the two documented readings of "taken modulo the number of points (and its
/// absolute value is taken in case it is negative)"
pub fn norm_readings(i: i32, n: usize) -> Vec<usize> {
    let n = n as i64;
    let a = (i as i64).rem_euclid(n) as usize;
    let b = ((i as i64).abs() % n) as usize;
    if a == b {
        vec![a]
    } else {
        vec![a, b]
    }
}

pub fn nth_point(t: &Tree, i: usize) -> Option<Tree> {
    fn walk(t: &Tree, i: usize, cnt: &mut usize) -> Option<Tree> {
        if *cnt == i {
            return Some(t.clone());
        }
        *cnt += 1;
        if let Tree::L(items) = t {
            for it in items {
                if let Some(x) = walk(it, i, cnt) {
                    return Some(x);
                }
            }
        }
        None
    }
    let mut cnt = 0;
    walk(t, i, &mut cnt)
}

/// copy of `t` with point `i` replaced by `x`
pub fn replace_point(t: &Tree, i: usize, x: &Tree) -> Tree {
    fn walk(t: &Tree, i: usize, x: &Tree, cnt: &mut usize) -> Tree {
        if *cnt == i {
            // skip the points of the replaced subtree
            *cnt += t.points();
            return x.clone();
        }
        *cnt += 1;
        match t {
            Tree::L(items) => Tree::L(items.iter().map(|it| walk(it, i, x, cnt)).collect()),
            other => other.clone(),
        }
    }
    let mut cnt = 0;
    walk(t, i, x, &mut cnt)
}

/// first depth-first index at which `pat` occurs structurally in `t`
pub fn position(t: &Tree, pat: &Tree) -> Option<usize> {
    let n = t.points();
    (0..n).find(|i| nth_point(t, *i).as_ref() == Some(pat))
}

pub fn contains(t: &Tree, pat: &Tree) -> bool {
    position(t, pat).is_some()
}

/// smallest sub-list of `t` that contains, and is not, the first occurrence of `pat`
pub fn container(t: &Tree, pat: &Tree) -> Option<Tree> {
    if t == pat {
        return None;
    }
    if let Tree::L(items) = t {
        for it in items {
            if it == pat {
                return Some(t.clone());
            }
            if contains(it, pat) {
                return container(it, pat);
            }
        }
    }
    None
}

/// every (outermost) structural occurrence of `pat` replaced by `sub`
pub fn subst(t: &Tree, pat: &Tree, sub: &Tree) -> Tree {
    if t == pat {
        return sub.clone();
    }
    match t {
        Tree::L(items) => Tree::L(items.iter().map(|it| subst(it, pat, sub)).collect()),
        other => other.clone(),
    }
}

/// all atoms of a tree, as canonical keys (multiset)
pub fn atoms(t: &Tree) -> Vec<String> {
    match t {
        Tree::L(items) => items.iter().flat_map(atoms).collect(),
        other => vec![other.key()],
    }
}

/// all trees with exactly `n` points over the given atoms
pub fn trees_with_points(n: usize, atoms: &[Tree]) -> Vec<Tree> {
    fn seqs(total: usize, atoms: &[Tree], memo: &mut Vec<Option<Vec<Tree>>>) -> Vec<Vec<Tree>> {
        // all sequences of trees whose points sum to `total`
        if total == 0 {
            return vec![vec![]];
        }
        let mut out = vec![];
        for first in 1..=total {
            let heads = trees(first, atoms, memo);
            let tails = seqs(total - first, atoms, memo);
            for h in &heads {
                for t in &tails {
                    let mut v = Vec::with_capacity(t.len() + 1);
                    v.push(h.clone());
                    v.extend(t.iter().cloned());
                    out.push(v);
                }
            }
        }
        out
    }
    fn trees(n: usize, atoms: &[Tree], memo: &mut Vec<Option<Vec<Tree>>>) -> Vec<Tree> {
        if let Some(Some(v)) = memo.get(n) {
            return v.clone();
        }
        let mut out = vec![];
        if n == 1 {
            out.extend(atoms.iter().cloned());
        }
        // a list is one point plus its elements
        for s in seqs(n - 1, atoms, memo) {
            out.push(Tree::L(s));
        }
        if memo.len() <= n {
            memo.resize(n + 1, None);
        }
        memo[n] = Some(out.clone());
        out
    }
    let mut memo = vec![];
    trees(n, atoms, &mut memo)
}

pub fn trees_up_to(n: usize, atoms: &[Tree]) -> Vec<Tree> {
    (1..=n).flat_map(|k| trees_with_points(k, atoms)).collect()
}
