//! Plain-data mirror of everything observable in a `PushState`, plus the two
//! bridges `build` (model -> real state) and `observe` (real state -> model).
//! Stacks: index 0 = top. Lists: element 0 = first printed. Queues: index 0 = oldest.
//! Graph stack: index 0 = top (newest).

use pushr::push::buffer::{BufferType, PushBuffer};
use pushr::push::graph::Graph;
use pushr::push::index::Index;
use pushr::push::io::PushMessage;
use pushr::push::item::{Item, PushType};
use pushr::push::stack::PushStack;
use pushr::push::state::PushState;
use pushr::push::vector::{BoolVector, FloatVector, IntVector};
use std::collections::BTreeMap;
use std::fmt::Write;

pub fn feq(a: f32, b: f32) -> bool {
    a == b || (a.is_nan() && b.is_nan())
}
pub fn fveq(a: &[f32], b: &[f32]) -> bool {
    a.len() == b.len() && a.iter().zip(b).all(|(x, y)| feq(*x, *y))
}
pub fn fkey(a: f32) -> String {
    if a.is_nan() {
        "NaN".to_string()
    } else {
        format!("{:e}#{:08x}", a, a.to_bits())
    }
}

#[derive(Clone, Debug, Default)]
pub struct G {
    pub nodes: BTreeMap<usize, i32>,
    /// destination -> incoming edges (origin, weight) in list order
    pub edges: BTreeMap<usize, Vec<(usize, f32)>>,
}
impl PartialEq for G {
    fn eq(&self, o: &G) -> bool {
        self.nodes == o.nodes
            && self.edges.len() == o.edges.len()
            && self.edges.iter().zip(o.edges.iter()).all(|((k1, v1), (k2, v2))| {
                k1 == k2
                    && v1.len() == v2.len()
                    && v1.iter().zip(v2).all(|(a, b)| a.0 == b.0 && feq(a.1, b.1))
            })
    }
}
impl G {
    pub fn key(&self) -> String {
        let mut s = String::from("G{");
        for (k, v) in &self.nodes {
            let _ = write!(s, "{}:{},", k, v);
        }
        s.push('|');
        for (k, v) in &self.edges {
            let _ = write!(s, "{}<=[", k);
            for (o, w) in v {
                let _ = write!(s, "{}:{},", o, fkey(*w));
            }
            s.push(']');
        }
        s.push('}');
        s
    }
}

#[derive(Clone, Debug)]
pub enum Tree {
    B(bool),
    I(i32),
    F(f32),
    Name(String),
    Ins(String),
    BV(Vec<bool>),
    IV(Vec<i32>),
    FV(Vec<f32>),
    Idx(usize, usize),
    Graph(G),
    L(Vec<Tree>),
}
impl PartialEq for Tree {
    fn eq(&self, o: &Tree) -> bool {
        use Tree::*;
        match (self, o) {
            (B(a), B(b)) => a == b,
            (I(a), I(b)) => a == b,
            (F(a), F(b)) => feq(*a, *b),
            (Name(a), Name(b)) => a == b,
            (Ins(a), Ins(b)) => a == b,
            (BV(a), BV(b)) => a == b,
            (IV(a), IV(b)) => a == b,
            (FV(a), FV(b)) => fveq(a, b),
            (Idx(a, b), Idx(c, d)) => a == c && b == d,
            (Graph(a), Graph(b)) => a == b,
            (L(a), L(b)) => a == b,
            _ => false,
        }
    }
}
impl Tree {
    pub fn ins(s: &str) -> Tree {
        Tree::Ins(s.to_string())
    }
    pub fn name(s: &str) -> Tree {
        Tree::Name(s.to_string())
    }
    pub fn is_list(&self) -> bool {
        matches!(self, Tree::L(_))
    }
    /// canonical, kind-tagged text (unlike pushr's Display, which hides kinds)
    pub fn key(&self) -> String {
        let mut s = String::new();
        self.key_into(&mut s);
        s
    }
    fn key_into(&self, s: &mut String) {
        use Tree::*;
        match self {
            B(b) => {
                let _ = write!(s, "b:{}", b);
            }
            I(i) => {
                let _ = write!(s, "i:{}", i);
            }
            F(f) => {
                let _ = write!(s, "f:{}", fkey(*f));
            }
            Name(n) => {
                let _ = write!(s, "n:{:?}", n);
            }
            Ins(n) => {
                let _ = write!(s, "!{}", n);
            }
            BV(v) => {
                let _ = write!(s, "bv:{:?}", v);
            }
            IV(v) => {
                let _ = write!(s, "iv:{:?}", v);
            }
            FV(v) => {
                s.push_str("fv:[");
                for x in v {
                    s.push_str(&fkey(*x));
                    s.push(',');
                }
                s.push(']');
            }
            Idx(c, d) => {
                let _ = write!(s, "x:{}/{}", c, d);
            }
            Graph(g) => s.push_str(&g.key()),
            L(items) => {
                s.push('(');
                for (k, it) in items.iter().enumerate() {
                    if k > 0 {
                        s.push(' ');
                    }
                    it.key_into(s);
                }
                s.push(')');
            }
        }
    }
    /// pushr-like rendering (for program text), only for kinds the parser can read back
    pub fn render(&self) -> String {
        use Tree::*;
        match self {
            B(b) => (if *b { "TRUE" } else { "FALSE" }).to_string(),
            I(i) => i.to_string(),
            F(f) => format!("{:.3}", f),
            Name(n) => n.clone(),
            Ins(n) => n.clone(),
            BV(v) => format!("BOOL[{}]", v.iter().map(|b| if *b { "1" } else { "0" }).collect::<Vec<_>>().join(",")),
            IV(v) => format!("INT[{}]", v.iter().map(|b| b.to_string()).collect::<Vec<_>>().join(",")),
            FV(v) => format!("FLOAT[{}]", v.iter().map(|b| format!("{:?}", b)).collect::<Vec<_>>().join(",")),
            Idx(c, d) => format!("{}/{}", c, d),
            Graph(_) => "<graph>".to_string(),
            L(items) => {
                let mut s = String::from("(");
                for it in items {
                    s.push(' ');
                    s.push_str(&it.render());
                }
                s.push_str(" )");
                s
            }
        }
    }
    /// number of points (each list and each atom is one point)
    pub fn points(&self) -> usize {
        match self {
            Tree::L(items) => 1 + items.iter().map(|t| t.points()).sum::<usize>(),
            _ => 1,
        }
    }
}

#[derive(Clone, Debug, PartialEq)]
pub struct Msg {
    pub header: Vec<i32>,
    pub body: Vec<bool>,
}

#[derive(Clone, Debug)]
pub struct Cfg {
    pub max_random_float: f32,
    pub min_random_float: f32,
    pub max_random_integer: i32,
    pub min_random_integer: i32,
    pub eval_push_limit: i32,
    pub eval_time_limit: u64,
    pub growth_cap: usize,
    pub new_erc_name_probability: f32,
    pub max_points_in_random_expressions: i32,
    pub max_points_in_program: i32,
}
impl Default for Cfg {
    fn default() -> Self {
        Cfg {
            max_random_float: 1.0,
            min_random_float: -1.0,
            max_random_integer: 10,
            min_random_integer: -10,
            eval_push_limit: 1000,
            eval_time_limit: 5000,
            growth_cap: 500,
            new_erc_name_probability: 0.001,
            max_points_in_random_expressions: 25,
            max_points_in_program: 100,
        }
    }
}
impl Cfg {
    pub fn key(&self) -> String {
        format!(
            "{},{},{},{},{},{},{},{},{},{}",
            fkey(self.max_random_float),
            fkey(self.min_random_float),
            self.max_random_integer,
            self.min_random_integer,
            self.eval_push_limit,
            self.eval_time_limit,
            self.growth_cap,
            fkey(self.new_erc_name_probability),
            self.max_points_in_random_expressions,
            self.max_points_in_program
        )
    }
}

/// Model state. Every component of `PushState` a program can read.
#[derive(Clone, Debug, Default)]
pub struct M {
    pub b: Vec<bool>,
    pub i: Vec<i32>,
    pub f: Vec<f32>,
    pub n: Vec<String>,
    pub c: Vec<Tree>,
    pub e: Vec<Tree>,
    pub bv: Vec<Vec<bool>>,
    pub iv: Vec<Vec<i32>>,
    pub fv: Vec<Vec<f32>>,
    pub x: Vec<(usize, usize)>,
    pub input: Vec<Msg>,
    pub output: Vec<Msg>,
    pub graphs: Vec<G>,
    pub bindings: BTreeMap<String, Tree>,
    pub quote: bool,
    pub send: bool,
    pub cfg: Cfg,
}

/// Names of the components, used for footprints and for mismatch reports.
#[derive(Clone, Copy, Debug, PartialEq, Eq, Hash, PartialOrd, Ord)]
pub enum Comp {
    B,
    I,
    F,
    N,
    C,
    E,
    BV,
    IV,
    FV,
    X,
    In,
    Out,
    Gr,
    Bind,
    Quote,
    Send,
    Cfg,
}
pub const ALL_COMPS: [Comp; 17] = [
    Comp::B,
    Comp::I,
    Comp::F,
    Comp::N,
    Comp::C,
    Comp::E,
    Comp::BV,
    Comp::IV,
    Comp::FV,
    Comp::X,
    Comp::In,
    Comp::Out,
    Comp::Gr,
    Comp::Bind,
    Comp::Quote,
    Comp::Send,
    Comp::Cfg,
];

impl M {
    pub fn comp_key(&self, c: Comp) -> String {
        let mut s = String::new();
        match c {
            Comp::B => {
                let _ = write!(s, "{:?}", self.b);
            }
            Comp::I => {
                let _ = write!(s, "{:?}", self.i);
            }
            Comp::F => {
                for x in &self.f {
                    s.push_str(&fkey(*x));
                    s.push(',');
                }
            }
            Comp::N => {
                let _ = write!(s, "{:?}", self.n);
            }
            Comp::C => {
                for t in &self.c {
                    s.push_str(&t.key());
                    s.push(';');
                }
            }
            Comp::E => {
                for t in &self.e {
                    s.push_str(&t.key());
                    s.push(';');
                }
            }
            Comp::BV => {
                let _ = write!(s, "{:?}", self.bv);
            }
            Comp::IV => {
                let _ = write!(s, "{:?}", self.iv);
            }
            Comp::FV => {
                for v in &self.fv {
                    s.push('[');
                    for x in v {
                        s.push_str(&fkey(*x));
                        s.push(',');
                    }
                    s.push(']');
                }
            }
            Comp::X => {
                let _ = write!(s, "{:?}", self.x);
            }
            Comp::In => {
                let _ = write!(s, "{:?}", self.input);
            }
            Comp::Out => {
                let _ = write!(s, "{:?}", self.output);
            }
            Comp::Gr => {
                for g in &self.graphs {
                    s.push_str(&g.key());
                    s.push(';');
                }
            }
            Comp::Bind => {
                for (k, v) in &self.bindings {
                    let _ = write!(s, "{:?}=>{};", k, v.key());
                }
            }
            Comp::Quote => {
                let _ = write!(s, "{}", self.quote);
            }
            Comp::Send => {
                let _ = write!(s, "{}", self.send);
            }
            Comp::Cfg => s.push_str(&self.cfg.key()),
        }
        s
    }
    pub fn comp_eq(&self, o: &M, c: Comp) -> bool {
        match c {
            Comp::B => self.b == o.b,
            Comp::I => self.i == o.i,
            Comp::F => fveq(&self.f, &o.f),
            Comp::N => self.n == o.n,
            Comp::C => self.c == o.c,
            Comp::E => self.e == o.e,
            Comp::BV => self.bv == o.bv,
            Comp::IV => self.iv == o.iv,
            Comp::FV => self.fv.len() == o.fv.len() && self.fv.iter().zip(&o.fv).all(|(a, b)| fveq(a, b)),
            Comp::X => self.x == o.x,
            Comp::In => self.input == o.input,
            Comp::Out => self.output == o.output,
            Comp::Gr => self.graphs == o.graphs,
            Comp::Bind => self.bindings == o.bindings,
            Comp::Quote => self.quote == o.quote,
            Comp::Send => self.send == o.send,
            Comp::Cfg => self.cfg.key() == o.cfg.key(),
        }
    }
    /// components in which two states differ
    pub fn diff(&self, o: &M) -> Vec<Comp> {
        ALL_COMPS.iter().copied().filter(|c| !self.comp_eq(o, *c)).collect()
    }
    pub fn key(&self) -> String {
        let mut s = String::new();
        for c in ALL_COMPS.iter() {
            let k = self.comp_key(*c);
            if *c == Comp::Cfg && k == Cfg::default().key() {
                continue;
            }
            if !k.is_empty() && k != "[]" && k != "false" {
                let _ = write!(s, "{:?}={} ", c, k);
            }
        }
        s
    }
    /// depth of a stack-like component
    pub fn depth(&self, c: Comp) -> usize {
        match c {
            Comp::B => self.b.len(),
            Comp::I => self.i.len(),
            Comp::F => self.f.len(),
            Comp::N => self.n.len(),
            Comp::C => self.c.len(),
            Comp::E => self.e.len(),
            Comp::BV => self.bv.len(),
            Comp::IV => self.iv.len(),
            Comp::FV => self.fv.len(),
            Comp::X => self.x.len(),
            Comp::In => self.input.len(),
            Comp::Out => self.output.len(),
            Comp::Gr => self.graphs.len(),
            Comp::Bind => self.bindings.len(),
            _ => 0,
        }
    }
    /// per-item keys of a stack-like component, top first
    pub fn item_keys(&self, c: Comp) -> Vec<String> {
        match c {
            Comp::B => self.b.iter().map(|v| v.to_string()).collect(),
            Comp::I => self.i.iter().map(|v| v.to_string()).collect(),
            Comp::F => self.f.iter().map(|v| fkey(*v)).collect(),
            Comp::N => self.n.clone(),
            Comp::C => self.c.iter().map(|v| v.key()).collect(),
            Comp::E => self.e.iter().map(|v| v.key()).collect(),
            Comp::BV => self.bv.iter().map(|v| format!("{:?}", v)).collect(),
            Comp::IV => self.iv.iter().map(|v| format!("{:?}", v)).collect(),
            Comp::FV => self.fv.iter().map(|v| v.iter().map(|x| fkey(*x)).collect::<Vec<_>>().join(",")).collect(),
            Comp::X => self.x.iter().map(|v| format!("{:?}", v)).collect(),
            Comp::In => self.input.iter().map(|v| format!("{:?}", v)).collect(),
            Comp::Out => self.output.iter().map(|v| format!("{:?}", v)).collect(),
            Comp::Gr => self.graphs.iter().map(|v| v.key()).collect(),
            _ => vec![self.comp_key(c)],
        }
    }
}

// ---------------------------------------------------------------------------
// model -> real

/// a copy with spare allocation (capacity > length), as a vector grown by `push` has: the subject must
/// never look at a Vec's capacity
thread_local! {
    static SPARE: std::cell::Cell<usize> = std::cell::Cell::new(5);
}
/// how much spare capacity the vectors handed to the subject get (an environment answer: a container that
/// was once large and has been drained keeps its allocation)
pub fn set_spare(n: usize) {
    SPARE.with(|s| s.set(n));
}
pub fn spare<T: Clone>(v: &[T]) -> Vec<T> {
    let mut w = Vec::with_capacity(v.len() + SPARE.with(|s| s.get()));
    w.extend_from_slice(v);
    w
}

pub fn item_of(t: &Tree) -> Item {
    match t {
        Tree::B(b) => Item::bool(*b),
        Tree::I(i) => Item::int(*i),
        Tree::F(f) => Item::float(*f),
        Tree::Name(n) => Item::name(n.clone()),
        Tree::Ins(n) => Item::instruction(n.clone()),
        Tree::BV(v) => Item::boolvec(BoolVector::new(spare(v))),
        Tree::IV(v) => Item::intvec(IntVector::new(spare(v))),
        Tree::FV(v) => Item::floatvec(FloatVector::new(spare(v))),
        Tree::Idx(c, d) => Item::index(Index { current: *c, destination: *d }),
        Tree::Graph(g) => Item::Literal { push_type: PushType::Graph { val: graph_of(g) } },
        Tree::L(items) => {
            // Item::list: last element of the vec is the top = first printed
            let v: Vec<Item> = items.iter().rev().map(item_of).collect();
            Item::list(spare(&v))
        }
    }
}

pub fn graph_of(g: &G) -> Graph {
    let mut out = Graph::new();
    let saved = pushr::push::graph::verif_node_counter();
    for (id, st) in &g.nodes {
        pushr::push::graph::verif_set_node_counter(*id);
        let got = out.add_node(*st);
        assert_eq!(got, *id, "harness: node counter seam did not yield the requested id");
    }
    pushr::push::graph::verif_set_node_counter(saved);
    for (dest, inc) in &g.edges {
        let list: Vec<pushr::push::graph::Edge> =
            inc.iter().map(|(o, w)| pushr::push::graph::Edge::new(*o, *w)).collect();
        out.edges.insert(*dest, list);
    }
    out
}

fn stack_of<T: Clone, U>(v: &[T], f: impl Fn(&T) -> U) -> PushStack<U>
where
    U: Clone + std::fmt::Display + PartialEq + pushr::push::stack::PushPrint,
{
    // index 0 = top -> last element of the backing vec
    PushStack::from_vec(spare(&v.iter().rev().map(f).collect::<Vec<U>>()))
}

pub fn build(m: &M) -> PushState {
    let mut s = PushState::new();
    s.bool_stack = stack_of(&m.b, |v| *v);
    s.int_stack = stack_of(&m.i, |v| *v);
    s.float_stack = stack_of(&m.f, |v| *v);
    s.name_stack = stack_of(&m.n, |v| v.clone());
    s.code_stack = stack_of(&m.c, item_of);
    s.exec_stack = stack_of(&m.e, item_of);
    s.bool_vector_stack = stack_of(&m.bv, |v| BoolVector::new(spare(v)));
    s.int_vector_stack = stack_of(&m.iv, |v| IntVector::new(spare(v)));
    s.float_vector_stack = stack_of(&m.fv, |v| FloatVector::new(spare(v)));
    s.index_stack = stack_of(&m.x, |v| Index { current: v.0, destination: v.1 });
    for msg in &m.input {
        s.input_stack.push(PushMessage::new(IntVector::new(spare(&msg.header)), BoolVector::new(spare(&msg.body))));
    }
    for msg in &m.output {
        s.output_stack.push(PushMessage::new(IntVector::new(spare(&msg.header)), BoolVector::new(spare(&msg.body))));
    }
    for g in m.graphs.iter().rev() {
        s.graph_stack.push(graph_of(g));
    }
    for (k, v) in &m.bindings {
        s.name_bindings.insert(k.clone(), item_of(v));
    }
    s.quote_name = m.quote;
    s.send_name = m.send;
    let c = &m.cfg;
    s.configuration.max_random_float = c.max_random_float;
    s.configuration.min_random_float = c.min_random_float;
    s.configuration.max_random_integer = c.max_random_integer;
    s.configuration.min_random_integer = c.min_random_integer;
    s.configuration.eval_push_limit = c.eval_push_limit;
    s.configuration.eval_time_limit = c.eval_time_limit;
    s.configuration.growth_cap = c.growth_cap;
    s.configuration.new_erc_name_probability = c.new_erc_name_probability;
    s.configuration.max_points_in_random_expressions = c.max_points_in_random_expressions;
    s.configuration.max_points_in_program = c.max_points_in_program;
    s
}

/// Makes the visible content of a LIVE state equal to `m` through the containers' own operations (flush and
/// push on the existing objects, clear and insert on the binding map): the state object, its containers and
/// whatever else it carries stay the same objects -- nothing is rebuilt.
pub fn set_live(s: &mut PushState, m: &M) {
    fn refill<T: Clone, U>(st: &mut PushStack<U>, v: &[T], f: impl Fn(&T) -> U)
    where
        U: Clone + std::fmt::Display + PartialEq + pushr::push::stack::PushPrint,
    {
        st.flush();
        for x in v.iter().rev() {
            st.push(f(x));
        }
    }
    refill(&mut s.bool_stack, &m.b, |v| *v);
    refill(&mut s.int_stack, &m.i, |v| *v);
    refill(&mut s.float_stack, &m.f, |v| *v);
    refill(&mut s.name_stack, &m.n, |v| v.clone());
    refill(&mut s.code_stack, &m.c, item_of);
    refill(&mut s.exec_stack, &m.e, item_of);
    refill(&mut s.bool_vector_stack, &m.bv, |v| BoolVector::new(spare(v)));
    refill(&mut s.int_vector_stack, &m.iv, |v| IntVector::new(spare(v)));
    refill(&mut s.float_vector_stack, &m.fv, |v| FloatVector::new(spare(v)));
    refill(&mut s.index_stack, &m.x, |v| Index { current: v.0, destination: v.1 });
    s.input_stack.flush();
    for msg in &m.input {
        s.input_stack.push(PushMessage::new(IntVector::new(spare(&msg.header)), BoolVector::new(spare(&msg.body))));
    }
    s.output_stack.flush();
    for msg in &m.output {
        s.output_stack.push(PushMessage::new(IntVector::new(spare(&msg.header)), BoolVector::new(spare(&msg.body))));
    }
    s.graph_stack.flush();
    for g in m.graphs.iter().rev() {
        s.graph_stack.push(graph_of(g));
    }
    s.name_bindings.clear();
    for (k, v) in &m.bindings {
        s.name_bindings.insert(k.clone(), item_of(v));
    }
    s.quote_name = m.quote;
    s.send_name = m.send;
}

// ---------------------------------------------------------------------------
// real -> model (structural walk through the public API only)

pub fn tree_of(it: &Item) -> Tree {
    match it {
        Item::List { items } => {
            let mut v = Vec::with_capacity(items.size());
            for k in 0..items.size() {
                v.push(tree_of(items.get(k).expect("PushStack::get below size")));
            }
            Tree::L(v)
        }
        Item::InstructionMeta { name } => Tree::Ins(name.clone()),
        Item::Identifier { name } => Tree::Name(name.clone()),
        Item::Literal { push_type } => match push_type {
            PushType::Bool { val } => Tree::B(*val),
            PushType::Int { val } => Tree::I(*val),
            PushType::Float { val } => Tree::F(*val),
            PushType::Index { val } => Tree::Idx(val.current, val.destination),
            PushType::BoolVector { val } => Tree::BV(val.values.clone()),
            PushType::IntVector { val } => Tree::IV(val.values.clone()),
            PushType::FloatVector { val } => Tree::FV(val.values.clone()),
            PushType::Graph { val } => Tree::Graph(g_of(val)),
        },
    }
}

pub fn g_of(g: &Graph) -> G {
    let mut out = G::default();
    for (k, n) in g.nodes.iter() {
        // key and id are reported separately if they ever disagree
        out.nodes.insert(*k, n.get_state());
        if *k != n.get_id() {
            out.nodes.insert(usize::MAX - *k, n.get_id() as i32);
        }
    }
    for (k, v) in g.edges.iter() {
        out.edges.insert(*k, v.iter().map(|e| (e.get_origin_id(), e.get_weight())).collect());
    }
    out
}

fn vec_of<T, U>(s: &PushStack<T>, f: impl Fn(&T) -> U) -> Vec<U>
where
    T: Clone + std::fmt::Display + PartialEq + pushr::push::stack::PushPrint,
{
    (0..s.size()).map(|k| f(s.get(k).expect("PushStack::get below size"))).collect()
}

fn msgs_of(b: &PushBuffer<PushMessage>) -> Vec<Msg> {
    (0..b.size())
        .filter_map(|k| b.get(k))
        .map(|m| Msg { header: m.header.values.clone(), body: m.body.values.clone() })
        .collect()
}

pub fn observe(s: &PushState) -> M {
    let c = &s.configuration;
    M {
        b: vec_of(&s.bool_stack, |v| *v),
        i: vec_of(&s.int_stack, |v| *v),
        f: vec_of(&s.float_stack, |v| *v),
        n: vec_of(&s.name_stack, |v| v.clone()),
        c: vec_of(&s.code_stack, tree_of),
        e: vec_of(&s.exec_stack, tree_of),
        bv: vec_of(&s.bool_vector_stack, |v| v.values.clone()),
        iv: vec_of(&s.int_vector_stack, |v| v.values.clone()),
        fv: vec_of(&s.float_vector_stack, |v| v.values.clone()),
        x: vec_of(&s.index_stack, |v| (v.current, v.destination)),
        input: msgs_of(&s.input_stack),
        output: msgs_of(&s.output_stack),
        graphs: (0..s.graph_stack.size()).filter_map(|k| s.graph_stack.get(k)).map(g_of).collect(),
        bindings: s.name_bindings.iter().map(|(k, v)| (k.clone(), tree_of(v))).collect(),
        quote: s.quote_name,
        send: s.send_name,
        cfg: Cfg {
            max_random_float: c.max_random_float,
            min_random_float: c.min_random_float,
            max_random_integer: c.max_random_integer,
            min_random_integer: c.min_random_integer,
            eval_push_limit: c.eval_push_limit,
            eval_time_limit: c.eval_time_limit,
            growth_cap: c.growth_cap,
            new_erc_name_probability: c.new_erc_name_probability,
            max_points_in_random_expressions: c.max_points_in_random_expressions,
            max_points_in_program: c.max_points_in_program,
        },
    }
}

pub fn new_buffer<T>(kind_queue: bool, cap: usize) -> PushBuffer<T>
where
    T: Clone + std::fmt::Display + Default + PartialEq + std::fmt::Debug,
{
    PushBuffer::new(if kind_queue { BufferType::Queue } else { BufferType::Stack }, cap)
}
