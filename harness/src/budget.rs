//! Counting global allocator with an optional per-step budget. Counts are exact and
//! deterministic (bytes requested, number of allocations, live bytes); when a budget is
//! armed, a request that would exceed it terminates the process at once with a reason on
//! stderr -- the supervisor attributes the death to the case named in the breadcrumb.
//! This is what lets C15 decide on deterministic counters instead of wall-clock time.

use std::alloc::{GlobalAlloc, Layout, System};
use std::sync::atomic::{AtomicUsize, Ordering::Relaxed};

pub struct Counting;

static LIVE: AtomicUsize = AtomicUsize::new(0);
static ALLOCS: AtomicUsize = AtomicUsize::new(0);
static BYTES: AtomicUsize = AtomicUsize::new(0);
static PEAK: AtomicUsize = AtomicUsize::new(0);
static LIMIT_LIVE: AtomicUsize = AtomicUsize::new(0);
static LIMIT_ALLOCS: AtomicUsize = AtomicUsize::new(0);

fn die(reason: &str, n: usize) -> ! {
    // no allocation here
    let mut buf = [0u8; 96];
    let mut k = 0;
    for b in b"BUDGET " {
        buf[k] = *b;
        k += 1;
    }
    for b in reason.as_bytes() {
        if k < 70 {
            buf[k] = *b;
            k += 1;
        }
    }
    buf[k] = b' ';
    k += 1;
    let mut digits = [0u8; 20];
    let mut d = 0;
    let mut x = n;
    loop {
        digits[d] = b'0' + (x % 10) as u8;
        d += 1;
        x /= 10;
        if x == 0 {
            break;
        }
    }
    while d > 0 {
        d -= 1;
        buf[k] = digits[d];
        k += 1;
    }
    buf[k] = b'\n';
    k += 1;
    extern "C" {
        fn write(fd: i32, buf: *const u8, n: usize) -> isize;
        fn abort() -> !;
    }
    unsafe {
        write(2, buf.as_ptr(), k);
        abort();
    }
}

unsafe impl GlobalAlloc for Counting {
    unsafe fn alloc(&self, layout: Layout) -> *mut u8 {
        let size = layout.size();
        let n = ALLOCS.fetch_add(1, Relaxed) + 1;
        BYTES.fetch_add(size, Relaxed);
        let live = LIVE.fetch_add(size, Relaxed) + size;
        if live > PEAK.load(Relaxed) {
            PEAK.store(live, Relaxed);
        }
        let ll = LIMIT_LIVE.load(Relaxed);
        if ll != 0 && live > ll {
            die("live bytes over budget, request of", size);
        }
        let la = LIMIT_ALLOCS.load(Relaxed);
        if la != 0 && n > la {
            die("allocation count over budget", n);
        }
        System.alloc(layout)
    }
    unsafe fn dealloc(&self, ptr: *mut u8, layout: Layout) {
        LIVE.fetch_sub(layout.size(), Relaxed);
        System.dealloc(ptr, layout)
    }
    unsafe fn realloc(&self, ptr: *mut u8, layout: Layout, new_size: usize) -> *mut u8 {
        let old = layout.size();
        ALLOCS.fetch_add(1, Relaxed);
        if new_size > old {
            BYTES.fetch_add(new_size - old, Relaxed);
            let live = LIVE.fetch_add(new_size - old, Relaxed) + (new_size - old);
            if live > PEAK.load(Relaxed) {
                PEAK.store(live, Relaxed);
            }
            let ll = LIMIT_LIVE.load(Relaxed);
            if ll != 0 && live > ll {
                die("live bytes over budget, realloc to", new_size);
            }
        } else {
            LIVE.fetch_sub(old - new_size, Relaxed);
        }
        System.realloc(ptr, layout, new_size)
    }
}

#[derive(Clone, Copy, Debug)]
pub struct Snapshot {
    pub live: usize,
    pub allocs: usize,
    pub bytes: usize,
}

pub fn snapshot() -> Snapshot {
    Snapshot { live: LIVE.load(Relaxed), allocs: ALLOCS.load(Relaxed), bytes: BYTES.load(Relaxed) }
}

/// arm the budget relative to the current counters (0 = off)
pub fn arm(extra_live: usize, extra_allocs: usize) {
    let s = snapshot();
    LIMIT_LIVE.store(if extra_live == 0 { 0 } else { s.live + extra_live }, Relaxed);
    LIMIT_ALLOCS.store(if extra_allocs == 0 { 0 } else { s.allocs + extra_allocs }, Relaxed);
    PEAK.store(s.live, Relaxed);
}
pub fn disarm() {
    LIMIT_LIVE.store(0, Relaxed);
    LIMIT_ALLOCS.store(0, Relaxed);
}
pub fn peak() -> usize {
    PEAK.load(Relaxed)
}
