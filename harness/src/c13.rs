//! C13 — random value generators and RAND instructions respect their documented bounds.
//! Same engine as C12: all RNG scripts with a bounded number of deviations.

use crate::c12::{farey_grid, judged_pass, reduced_grid, scripted, step_scripted, RunOut};
use crate::core::{panic_class, with_instr, Ctx, Outcome, Real, Verdict};
use crate::model::{build, Tree, M};
use pushr::push::random::CodeGenerator;
use std::collections::BTreeSet;

fn sparsities() -> Vec<f32> {
    vec![
        0.0, 0.1, 0.25, 0.5, 0.75, 0.9, 1.0, -0.1, 1.1, f32::NAN, f32::INFINITY, f32::NEG_INFINITY,
        // just outside the interval, signed zero, shares that round to 0 % / 1 % / 99 % / 100 %, shares whose product with the size is inexact in f32
        -0.0, f32::from_bits(1.0f32.to_bits() + 1), 1.003, 1.0049, -1e-45, -0.004, 0.004, 0.006, 0.994, 0.996, 0.21, 0.42, 0.58,
    ]
}

fn valid_sparsity(s: f32) -> bool {
    s >= 0.0 && s <= 1.0
}

/// The documented rounding: the share of non-default bits, min(s, 1-s), is rounded to a whole percent p; the
/// number of non-default bits is the whole part of p % of n; the default value is TRUE exactly for s > 0.5.
/// (When 100*min(s,1-s) lies within 0.001 of a half, either neighbouring percent is accepted.)
fn count_ok(count: usize, n: usize, s: f32) -> bool {
    let share = 100.0 * f64::min(s as f64, 1.0 - s as f64);
    let mut pcts = vec![share.round() as u64];
    if ((share - share.floor()) - 0.5).abs() < 1e-3 {
        pcts = vec![share.floor() as u64, share.floor() as u64 + 1];
    }
    pcts.iter().any(|p| {
        let flipped = (p * n as u64 / 100) as usize;
        let want = if s > 0.5 { n - flipped } else { flipped };
        count == want
    })
}

/// every (size, whole percent) pair of a dense range under the default answers: the TRUE count is exactly
/// the documented share (the count does not depend on the random answers)
pub fn counts(ctx: &mut Ctx) {
    let nmax: usize = if ctx.tier_thorough { 2000 } else { 500 };
    let mut sizes: Vec<usize> = (0..=nmax).collect();
    sizes.extend([4096, 10_000]);
    let huge: usize = 42_949_673; // 50 * size > i32::MAX
    crate::core::DRAW_HORIZON.store(400_000_000, std::sync::atomic::Ordering::Relaxed);
    for n in sizes {
        let id = match ctx.take() {
            Some(id) => id,
            None => continue,
        };
        ctx.transitions += 101;
        ctx.states += 1;
        let mut problems: Vec<String> = vec![];
        let mut okey = String::new();
        for pct in 0..=100u32 {
            let s = pct as f32 / 100.0;
            let (r, _log) = scripted(&[], 10_000_000, || CodeGenerator::random_bool_vector(n as i32, s).map(|v| v.values));
            match r {
                Err(p) => problems.push(format!("size {} sparsity {}: {}", n, s, panic_class(&p))),
                Ok(None) => problems.push(format!("size {} sparsity {}: no vector", n, s)),
                Ok(Some(bits)) => {
                    let cnt = bits.iter().filter(|b| **b).count();
                    okey = format!("{}", cnt);
                    if bits.len() != n {
                        problems.push(format!("size {} sparsity {}: length {}", n, s, bits.len()));
                    } else if !count_ok(cnt, n, s) {
                        let p = std::cmp::min(pct, 100 - pct) as usize;
                        problems.push(format!("size {} sparsity {}: {} TRUE bits; {} % of {} is {} non-default bits", n, s, cnt, p, n, p * n / 100));
                    }
                }
            }
        }
        let v = if problems.is_empty() { Verdict::Pass } else { Verdict::fail("random_bool_vector", "true-count", problems[..problems.len().min(4)].join("; ")) };
        ctx.nontrivial_mark(&format!("{}|{}", n, okey));
        ctx.record(id, &format!("{}|{}", n, okey), v, || format!("random_bool_vector size {} x sparsity 0.00..1.00", n));
    }
    // one very long vector (the product percent x size no longer fits 32 bits)
    if let Some(id) = ctx.take() {
        ctx.transitions += 1;
        ctx.states += 1;
        let (r, _log) = scripted(&[], 400_000_000, || CodeGenerator::random_bool_vector(huge as i32, 0.5).map(|v| (v.values.len(), v.values.iter().filter(|b| **b).count())));
        let v = match r {
            Err(p) => Verdict::fail("random_bool_vector", &panic_class(&p), format!("size {} sparsity 0.5: {}", huge, p)),
            Ok(None) => Verdict::fail("random_bool_vector", "none", format!("size {} sparsity 0.5: no vector", huge)),
            Ok(Some((len, cnt))) => {
                if len == huge && cnt == huge / 2 {
                    Verdict::Pass
                } else {
                    Verdict::fail("random_bool_vector", "true-count", format!("size {} sparsity 0.5: length {} with {} TRUE bits (expected {})", huge, len, cnt, huge / 2))
                }
            }
        };
        ctx.record(id, "huge", v, || format!("random_bool_vector size {} sparsity 0.5", huge));
    }
}

pub fn boolvec(ctx: &mut Ctx) {
    let full = farey_grid(12);
    let red = reduced_grid();
    let nmax = if ctx.tier_thorough { 10 } else { 8 };
    // positions that some explored script set TRUE, per (size, sparsity): reachability
    for size in -1..=nmax {
        for s in sparsities() {
            let lab = format!("random_bool_vector size={} sparsity={}", size, s);
            let mut reached: BTreeSet<usize> = BTreeSet::new();
            let mut any_true_possible = false;
            judged_pass(ctx, &lab, &full, if ctx.tier_thorough { 2 } else { 1 }, &red, 2, &mut |_ctx2, script| {
                let (r, log) = scripted(script, 2000, || CodeGenerator::random_bool_vector(size, s).map(|v| v.values));
                match r {
                    Err(p) => {
                        let class = if p.contains("VERIF_DRAW_HORIZON") { "hang (draw horizon reached)".to_string() } else { panic_class(&p) };
                        RunOut { log, okey: class.clone(), verdict: Verdict::fail("random_bool_vector", &class, p), nontrivial: false }
                    }
                    Ok(v) => {
                        let valid = size >= 0 && valid_sparsity(s);
                        let verdict = match &v {
                            None if !valid => Verdict::Pass,
                            None => Verdict::fail("random_bool_vector", "none", "valid parameters but no vector".into()),
                            Some(_) if !valid => Verdict::fail("random_bool_vector", "invalid-accepted", format!("size {} sparsity {} produced a vector", size, s)),
                            Some(bits) => {
                                let cnt = bits.iter().filter(|b| **b).count();
                                for (p, b) in bits.iter().enumerate() {
                                    if *b {
                                        reached.insert(p);
                                    }
                                }
                                if cnt > 0 && cnt < bits.len() {
                                    any_true_possible = true;
                                }
                                if bits.len() != size as usize {
                                    Verdict::fail("random_bool_vector", "length", format!("length {} expected {}", bits.len(), size))
                                } else if !count_ok(cnt, bits.len(), s) {
                                    Verdict::fail("random_bool_vector", "true-count", format!("{} TRUE bits of {} at sparsity {}", cnt, bits.len(), s))
                                } else {
                                    Verdict::Pass
                                }
                            }
                        };
                        RunOut { log, okey: format!("{:?}", v), verdict, nontrivial: valid }
                    }
                }
            });
            // every position able to become TRUE (only meaningful when some but not all bits are TRUE)
            if any_true_possible {
                let id = ctx.next_id;
                ctx.next_id += 1;
            ctx.mark_case(id);
                if ctx.only.map(|o| o == id).unwrap_or(id as usize % ctx.nshards == ctx.shard) {
                    let missing: Vec<usize> = (0..size as usize).filter(|p| !reached.contains(p)).collect();
                    let v = if missing.is_empty() { Verdict::Pass } else { Verdict::fail("random_bool_vector", "unreachable-position", format!("size {} sparsity {}: no explored script sets position(s) {:?} TRUE (every outcome of the first index draw was explored)", size, s, missing)) };
                    ctx.record(id, &format!("reach {:?}", reached), v, || format!("{} reachability over all explored scripts", lab));
                }
            }
        }
    }
}

pub fn vectors(ctx: &mut Ctx) {
    let full = farey_grid(12);
    let red = reduced_grid();
    for size in [-1, 0, 1, 2, 5] {
        for (min, max) in [(-3, 3), (0, 1), (5, 5), (7, 3), (i32::MIN, i32::MAX), (i32::MAX - 1, i32::MAX), (i32::MIN, i32::MIN + 1)] {
            let lab = format!("random_int_vector size={} min={} max={}", size, min, max);
            judged_pass(ctx, &lab, &full, 1, &red, 2, &mut |ctx2, script| {
                let (r, log) = scripted(script, 2000, || CodeGenerator::random_int_vector(size, min, max).map(|v| v.values));
                match r {
                    Err(p) => RunOut { log, okey: panic_class(&p), verdict: Verdict::fail("random_int_vector", &panic_class(&p), p), nontrivial: false },
                    Ok(v) => {
                        let valid = size >= 0 && max > min;
                        let verdict = match &v {
                            None if !valid => Verdict::Pass,
                            None => Verdict::fail("random_int_vector", "none", "valid parameters but no vector".into()),
                            Some(_) if !valid => Verdict::fail("random_int_vector", "invalid-accepted", format!("size {} [{}, {}) produced a vector", size, min, max)),
                            Some(xs) => {
                                for x in xs {
                                    ctx2.sometimes(&format!("int-in-range-{}", if *x == min { "min" } else if *x == max - 1 { "max-1" } else { "inner" }));
                                }
                                if xs.len() != size as usize {
                                    Verdict::fail("random_int_vector", "length", format!("length {} expected {}", xs.len(), size))
                                } else if xs.iter().any(|x| *x < min || *x >= max) {
                                    Verdict::fail("random_int_vector", "range", format!("{:?} not all in [{}, {})", xs, min, max))
                                } else {
                                    Verdict::Pass
                                }
                            }
                        };
                        RunOut { log, okey: format!("{:?}", v), verdict, nontrivial: valid }
                    }
                }
            });
        }
        let fl = [0.0f32, 1.0, -1.0, f32::INFINITY, f32::NAN];
        for mean in fl {
            for sd in fl {
                let lab = format!("random_float_vector size={} mean={} sd={}", size, mean, sd);
                judged_pass(ctx, &lab, &red, 1, &red, if ctx.tier_thorough { 2 } else { 1 }, &mut |_c, script| {
                    let (r, log) = scripted(script, 4000, || CodeGenerator::random_float_vector(size, mean, sd).map(|v| v.values));
                    match r {
                        Err(p) => RunOut { log, okey: panic_class(&p), verdict: Verdict::fail("random_float_vector", &panic_class(&p), p), nontrivial: false },
                        Ok(v) => {
                            let valid = size >= 0 && sd >= 0.0 && sd.is_finite();
                            let verdict = match &v {
                                None if !valid => Verdict::Pass,
                                None => Verdict::fail("random_float_vector", "none", "valid parameters but no vector".into()),
                                Some(_) if !valid => Verdict::fail("random_float_vector", "invalid-accepted", format!("size {} mean {} sd {} produced a vector", size, mean, sd)),
                                Some(xs) if xs.len() != size as usize => Verdict::fail("random_float_vector", "length", format!("length {} expected {}", xs.len(), size)),
                                Some(_) => Verdict::Pass,
                            };
                            RunOut { log, okey: format!("{:?}", v.map(|x| x.len())), verdict, nontrivial: valid }
                        }
                    }
                });
            }
        }
    }
}

/// the *.RAND instructions by NAME
pub fn instructions(ctx: &mut Ctx) {
    let full = farey_grid(12);
    let red = reduced_grid();
    let mut real = Real::new();
    // INTEGER.RAND / FLOAT.RAND over configuration pairs
    for (imin, imax) in [(-10, 10), (0, 1), (5, 5), (7, 3), (i32::MIN, i32::MAX), (i32::MAX - 1, i32::MAX)] {
        let mut m = M::default();
        m.cfg.min_random_integer = imin;
        m.cfg.max_random_integer = imax;
        let lab = format!("INTEGER.RAND [{}, {})", imin, imax);
        let rr = &mut real;
        judged_pass(ctx, &lab, &full, 1, &red, 1, &mut |_c, script| {
            let (o, log) = step_scripted(rr, &with_instr(&m, "INTEGER.RAND"), script);
            match o {
                Outcome::Panic(p) => RunOut { log, okey: panic_class(&p), verdict: Verdict::fail("INTEGER.RAND", &panic_class(&p), p), nontrivial: false },
                Outcome::Ok(g) => {
                    let valid = imin < imax;
                    let verdict = if !valid {
                        if g.diff(&m).is_empty() {
                            Verdict::Pass
                        } else {
                            Verdict::fail("INTEGER.RAND", "invalid-accepted", format!("min >= max but state changed to {{{}}}", g.key()))
                        }
                    } else if g.i.len() != 1 || g.i[0] < imin || g.i[0] >= imax {
                        Verdict::fail("INTEGER.RAND", "range", format!("INTEGER {:?} not one value in [{}, {})", g.i, imin, imax))
                    } else {
                        Verdict::Pass
                    };
                    RunOut { log, okey: g.key(), verdict, nontrivial: valid }
                }
            }
        });
    }
    for (fmin, fmax) in [(-1.0f32, 1.0f32), (0.0, 1.0), (2.0, 2.0), (3.0, -3.0), (f32::MIN, f32::MAX), (0.0, f32::MIN_POSITIVE), (f32::NAN, 1.0), (0.0, f32::NAN), (0.0, f32::INFINITY)] {
        let mut m = M::default();
        m.cfg.min_random_float = fmin;
        m.cfg.max_random_float = fmax;
        let lab = format!("FLOAT.RAND [{}, {})", fmin, fmax);
        let rr = &mut real;
        judged_pass(ctx, &lab, &full, 1, &red, 1, &mut |_c, script| {
            let (o, log) = step_scripted(rr, &with_instr(&m, "FLOAT.RAND"), script);
            match o {
                Outcome::Panic(p) => {
                    let class = if p.contains("VERIF_DRAW_HORIZON") { "hang (draw horizon reached)".to_string() } else { panic_class(&p) };
                    RunOut { log, okey: class.clone(), verdict: Verdict::fail("FLOAT.RAND", &class, p), nontrivial: false }
                }
                Outcome::Ok(g) => {
                    let valid = fmin < fmax && fmax.is_finite() && fmin.is_finite();
                    let verdict = if !(fmin < fmax) {
                        if g.diff(&m).is_empty() {
                            Verdict::Pass
                        } else {
                            Verdict::fail("FLOAT.RAND", "invalid-accepted", format!("not min < max but state changed to {{{}}}", g.key()))
                        }
                    } else if !valid {
                        // an unbounded interval: a value in it, or nothing
                        if g.f.is_empty() || (g.f.len() == 1 && g.f[0] >= fmin && g.f[0] < fmax) {
                            Verdict::Pass
                        } else {
                            Verdict::fail("FLOAT.RAND", "range", format!("FLOAT {:?}", g.f))
                        }
                    } else if g.f.len() != 1 || !(g.f[0] >= fmin && g.f[0] < fmax) {
                        Verdict::fail("FLOAT.RAND", "range", format!("FLOAT {:?} not one value in [{}, {})", g.f, fmin, fmax))
                    } else {
                        Verdict::Pass
                    };
                    RunOut { log, okey: g.key(), verdict, nontrivial: valid }
                }
            }
        });
    }
    // BOOLEAN.RAND: one boolean; both values reachable
    {
        let m = M::default();
        let rr = &mut real;
        let mut seen = BTreeSet::new();
        judged_pass(ctx, "BOOLEAN.RAND", &full, 1, &red, 1, &mut |_c, script| {
            let (o, log) = step_scripted(rr, &with_instr(&m, "BOOLEAN.RAND"), script);
            match o {
                Outcome::Panic(p) => RunOut { log, okey: panic_class(&p), verdict: Verdict::fail("BOOLEAN.RAND", &panic_class(&p), p), nontrivial: false },
                Outcome::Ok(g) => {
                    if let Some(b) = g.b.first() {
                        seen.insert(*b);
                    }
                    let v = if g.b.len() == 1 { Verdict::Pass } else { Verdict::fail("BOOLEAN.RAND", "shape", format!("BOOLEAN {:?}", g.b)) };
                    RunOut { log, okey: g.key(), verdict: v, nontrivial: true }
                }
            }
        });
        let id = ctx.next_id;
        ctx.next_id += 1;
        if ctx.only.map(|o| o == id).unwrap_or(id as usize % ctx.nshards == ctx.shard) {
            let v = if seen.len() == 2 { Verdict::Pass } else { Verdict::fail("BOOLEAN.RAND", "unreachable-value", format!("only {:?} produced over all outcomes of its draw", seen)) };
            ctx.record(id, &format!("{:?}", seen), v, || "BOOLEAN.RAND reachability".into());
        }
    }
    // NAME.RANDBOUNDNAME: a currently bound name whenever one exists
    // ... also while a NAME.QUOTE is pending, and with names already on the NAME stack (nb + 10, nb + 20)
    for nbv in [0usize, 1, 2, 3, 11, 12, 13, 21, 22, 23] {
        let nb = nbv % 10;
        let mut m = M::default();
        for k in 0..nb {
            m.bindings.insert(format!("BOUND{}", k), Tree::I(k as i32));
        }
        let extra_names = if nbv >= 20 { 2 } else { 0 };
        if nbv >= 20 {
            m.n = vec!["N1".into(), "BOUND0".into()];
        } else if nbv >= 10 {
            m.quote = true;
        }
        let lab = format!("NAME.RANDBOUNDNAME with {} bindings{}", nb, if nbv >= 20 { ", names on the NAME stack" } else if nbv >= 10 { ", NAME.QUOTE pending" } else { "" });
        let rr = &mut real;
        let mut seen = BTreeSet::new();
        judged_pass(ctx, &lab, &full, 1, &red, 1, &mut |_c, script| {
            let (o, log) = step_scripted(rr, &with_instr(&m, "NAME.RANDBOUNDNAME"), script);
            match o {
                Outcome::Panic(p) => RunOut { log, okey: panic_class(&p), verdict: Verdict::fail("NAME.RANDBOUNDNAME", &panic_class(&p), p), nontrivial: false },
                Outcome::Ok(g) => {
                    let v = if g.n.len() != 1 + extra_names {
                        Verdict::fail("NAME.RANDBOUNDNAME", "shape", format!("NAME {:?}", g.n))
                    } else if nb > 0 && !m.bindings.contains_key(&g.n[0]) {
                        Verdict::fail("NAME.RANDBOUNDNAME", "unbound", format!("{} is not a bound name", g.n[0]))
                    } else {
                        seen.insert(g.n[0].clone());
                        Verdict::Pass
                    };
                    RunOut { log, okey: if nb > 0 { g.key() } else { "new-name".into() }, verdict: v, nontrivial: nb > 0 }
                }
            }
        });
        if nb > 0 {
            let id = ctx.next_id;
            ctx.next_id += 1;
            ctx.mark_case(id);
            if ctx.only.map(|o| o == id).unwrap_or(id as usize % ctx.nshards == ctx.shard) {
                let v = if seen.len() == nb { Verdict::Pass } else { Verdict::fail("NAME.RANDBOUNDNAME", "unreachable-name", format!("only {:?} of {} bound names are ever chosen", seen, nb)) };
                ctx.record(id, &format!("{:?}", seen), v, || format!("{} reachability", lab));
            }
        }
    }
    // vector RAND instructions by name: operand order and stack shapes
    for (size, s) in [(4, 0.5f32), (3, 1.5), (-1, 0.5), (2, f32::NAN), (0, 0.0)] {
        let mut m = M::default();
        m.i = vec![size, 77];
        m.f = vec![s, 9.5];
        let lab = format!("BOOLVECTOR.RAND size={} sparsity={}", size, s);
        let rr = &mut real;
        judged_pass(ctx, &lab, &full, 1, &red, 1, &mut |_c, script| {
            let (o, log) = step_scripted(rr, &with_instr(&m, "BOOLVECTOR.RAND"), script);
            match o {
                Outcome::Panic(p) => RunOut { log, okey: panic_class(&p), verdict: Verdict::fail("BOOLVECTOR.RAND", &panic_class(&p), p), nontrivial: false },
                Outcome::Ok(g) => {
                    let valid = size >= 0 && valid_sparsity(s);
                    let v = if g.i != vec![77] || g.f.len() != 1 {
                        Verdict::fail("BOOLVECTOR.RAND", "operands", format!("I {:?} F {:?}", g.i, g.f))
                    } else if valid && (g.bv.len() != 1 || g.bv[0].len() != size as usize) {
                        Verdict::fail("BOOLVECTOR.RAND", "result", format!("BOOLVECTOR {:?}", g.bv))
                    } else if !valid && !g.bv.is_empty() {
                        Verdict::fail("BOOLVECTOR.RAND", "invalid-accepted", format!("BOOLVECTOR {:?}", g.bv))
                    } else {
                        Verdict::Pass
                    };
                    RunOut { log, okey: g.key(), verdict: v, nontrivial: valid }
                }
            }
        });
    }
    for (size, min, max) in [(3, -3, 3), (2, 5, 5), (-1, 0, 9), (0, 0, 1)] {
        let mut m = M::default();
        // size on top, then max, then min
        m.i = vec![size, max, min, 77];
        let lab = format!("INTVECTOR.RAND size={} min={} max={}", size, min, max);
        let rr = &mut real;
        judged_pass(ctx, &lab, &full, 1, &red, 1, &mut |_c, script| {
            let (o, log) = step_scripted(rr, &with_instr(&m, "INTVECTOR.RAND"), script);
            match o {
                Outcome::Panic(p) => RunOut { log, okey: panic_class(&p), verdict: Verdict::fail("INTVECTOR.RAND", &panic_class(&p), p), nontrivial: false },
                Outcome::Ok(g) => {
                    let valid = size >= 0 && max > min;
                    let v = if g.i != vec![77] {
                        Verdict::fail("INTVECTOR.RAND", "operands", format!("I {:?}", g.i))
                    } else if valid && (g.iv.len() != 1 || g.iv[0].len() != size as usize || g.iv[0].iter().any(|x| *x < min || *x >= max)) {
                        Verdict::fail("INTVECTOR.RAND", "result", format!("INTVECTOR {:?}", g.iv))
                    } else if !valid && !g.iv.is_empty() {
                        Verdict::fail("INTVECTOR.RAND", "invalid-accepted", format!("INTVECTOR {:?}", g.iv))
                    } else {
                        Verdict::Pass
                    };
                    RunOut { log, okey: g.key(), verdict: v, nontrivial: valid }
                }
            }
        });
    }
    for (size, mean, sd) in [(3, 0.0f32, 1.0f32), (2, 1.0, -1.0), (2, 0.0, f32::NAN), (-1, 0.0, 1.0), (0, 0.0, f32::INFINITY), (0, 0.0, -1.0)] {
        let mut m = M::default();
        // mean on top of FLOAT, deviation second
        m.i = vec![size, 77];
        m.f = vec![mean, sd, 9.5];
        let lab = format!("FLOATVECTOR.RAND size={} mean={} sd={}", size, mean, sd);
        let rr = &mut real;
        judged_pass(ctx, &lab, &red, 1, &red, 1, &mut |_c, script| {
            let (o, log) = step_scripted(rr, &with_instr(&m, "FLOATVECTOR.RAND"), script);
            match o {
                Outcome::Panic(p) => RunOut { log, okey: panic_class(&p), verdict: Verdict::fail("FLOATVECTOR.RAND", &panic_class(&p), p), nontrivial: false },
                Outcome::Ok(g) => {
                    let valid = size >= 0 && sd >= 0.0 && sd.is_finite();
                    let v = if g.i != vec![77] || g.f.len() != 1 {
                        Verdict::fail("FLOATVECTOR.RAND", "operands", format!("I {:?} F {:?}", g.i, g.f))
                    } else if valid && (g.fv.len() != 1 || g.fv[0].len() != size as usize) {
                        Verdict::fail("FLOATVECTOR.RAND", "result", format!("FLOATVECTOR {:?}", g.fv))
                    } else if !valid && !g.fv.is_empty() {
                        Verdict::fail("FLOATVECTOR.RAND", "invalid-accepted", format!("FLOATVECTOR {:?}", g.fv))
                    } else {
                        Verdict::Pass
                    };
                    RunOut { log, okey: g.key(), verdict: v, nontrivial: valid }
                }
            }
        });
    }
    let _ = build;
}

/// History independence of the generators: under the same scripted answers, a generator call returns
/// the same value whether it is the first call on a pristine thread or follows any other call.
pub fn history(ctx: &mut Ctx) {
    #[derive(Clone, Debug)]
    enum Call {
        Bools(i32, f32),
        Ints(i32),
        Floats(i32),
        /// points, which of two binding sets of equal size is current
        Code(usize, u8),
        /// FLOATVECTOR.RAND parameters incl. invalid ones
        FloatsP(i32, u32, u32),
    }
    fn exec(c: &Call) -> String {
        let (r, log) = scripted(&[], 100_000, || match c {
            Call::Bools(n, s) => format!("{:?}", CodeGenerator::random_bool_vector(*n, *s).map(|v| v.values)),
            Call::Ints(n) => format!("{:?}", CodeGenerator::random_int_vector(*n, -5, 50).map(|v| v.values)),
            Call::Floats(n) => format!("{:?}", CodeGenerator::random_float_vector(*n, 0.0, 1.0).map(|v| v.values)),
            Call::FloatsP(n, mean, sd) => format!("{:?}", CodeGenerator::random_float_vector(*n, f32::from_bits(*mean), f32::from_bits(*sd)).map(|v| v.values.len())),
            Call::Code(n, which) => {
                // new names come from the `names` crate's own generator (not scripted): disabled here
                let mut st = pushr::push::state::PushState::new();
                st.configuration.new_erc_name_probability = 0.0;
                st.name_bindings.insert(if *which == 0 { "X" } else { "Z" }.to_string(), pushr::push::item::Item::int(1));
                let ic = pushr::push::instructions::InstructionCache::new(vec!["NOOP".to_string()]);
                format!("{}", CodeGenerator::random_code_with_size(&st, &ic, *n).to_string())
            }
        });
        match r {
            Ok(s) => format!("{} / {} draws", s, log.len()),
            Err(p) => format!("PANIC {}", panic_class(&p)),
        }
    }
    let mut calls: Vec<Call> = vec![];
    let sizes: Vec<i32> = if ctx.tier_thorough { vec![0, 1, 2, 3, 5, 8, 13, 16, 17, 33, 64, 100, 257] } else { vec![0, 1, 3, 8, 17, 64, 257] };
    for n in &sizes {
        for s in [0.25f32, 1.0] {
            calls.push(Call::Bools(*n, s));
        }
        calls.push(Call::Ints(*n));
        calls.push(Call::Floats(*n));
        if *n >= 1 {
            calls.push(Call::Code(*n as usize, 0));
            calls.push(Call::Code(*n as usize, 1));
        }
    }
    // invalid and valid deviations (a rejected request must stay rejected when it is repeated)
    for sd in [f32::INFINITY, f32::NAN, -1.0, 1.0] {
        calls.push(Call::FloatsP(4, 0.0f32.to_bits(), sd.to_bits()));
    }
    // baseline: every call alone on a pristine thread
    let base: Vec<String> = calls
        .iter()
        .map(|c| {
            let c2 = c.clone();
            std::thread::spawn(move || {
                crate::core::install_panic_hook();
                exec(&c2)
            })
            .join()
            .unwrap_or_else(|_| "PANIC thread".into())
        })
        .collect();
    for (qi, q) in calls.iter().enumerate() {
        let mine = qi % ctx.nshards == ctx.shard;
        for (pi, p) in calls.iter().enumerate() {
            let id = ctx.next_id;
            ctx.next_id += 1;
            ctx.mark_case(id);
            if !mine || ctx.only.map(|o| id > o).unwrap_or(false) {
                continue;
            }
            let rec = ctx.only.map(|o| o == id).unwrap_or(true);
            let first = exec(q);
            let after = exec(p);
            let mut problems = vec![];
            if first != base[qi] {
                problems.push(format!("{:?} gives {} here but {} alone on a pristine thread", q, crate::core::trunc(&first, 200), crate::core::trunc(&base[qi], 200)));
            }
            if after != base[pi] {
                problems.push(format!("{:?} after {:?} gives {} but {} alone on a pristine thread", p, q, crate::core::trunc(&after, 200), crate::core::trunc(&base[pi], 200)));
            }
            let v = if problems.is_empty() { Verdict::Pass } else { Verdict::fail("generator", "depends-on-earlier-call", problems.join("; ")) };
            if rec {
                ctx.transitions += 1;
                ctx.states += 1;
                ctx.nontrivial_mark(&format!("{}|{}", pi, base[pi]));
            }
            ctx.record_if(rec, id, &format!("{}|{}", pi, crate::core::trunc(&base[pi], 60)), v, || format!("{:?} after {:?} (and after the earlier calls of this worker)", p, q));
        }
    }
}

/// all ordered TRIPLES of a reduced menu of generator calls on one thread against the value of the last call
/// alone on a pristine thread (a remembered distribution, table or name list that survives one intermediate call)
pub fn history3(ctx: &mut Ctx) {
    let menu: Vec<(&str, Box<dyn Fn() -> String>)> = vec![
        ("bools(8,0.25)", Box::new(|| format!("{:?}", CodeGenerator::random_bool_vector(8, 0.25).map(|v| v.values)))),
        ("bools(3,1.0)", Box::new(|| format!("{:?}", CodeGenerator::random_bool_vector(3, 1.0).map(|v| v.values)))),
        ("bools(17,0.5)", Box::new(|| format!("{:?}", CodeGenerator::random_bool_vector(17, 0.5).map(|v| v.values)))),
        ("bools(3,NaN)", Box::new(|| format!("{:?}", CodeGenerator::random_bool_vector(3, f32::NAN).map(|v| v.values)))),
        ("ints(3,-5,50)", Box::new(|| format!("{:?}", CodeGenerator::random_int_vector(3, -5, 50).map(|v| v.values)))),
        ("ints(8,0,2)", Box::new(|| format!("{:?}", CodeGenerator::random_int_vector(8, 0, 2).map(|v| v.values)))),
        ("ints(3,5,5)", Box::new(|| format!("{:?}", CodeGenerator::random_int_vector(3, 5, 5).map(|v| v.values)))),
        ("floats(4,0,1)", Box::new(|| format!("{:?}", CodeGenerator::random_float_vector(4, 0.0, 1.0).map(|v| v.values)))),
        ("floats(4,2,0.5)", Box::new(|| format!("{:?}", CodeGenerator::random_float_vector(4, 2.0, 0.5).map(|v| v.values)))),
        ("floats(4,0,inf)", Box::new(|| format!("{:?}", CodeGenerator::random_float_vector(4, 0.0, f32::INFINITY).map(|v| v.values.len())))),
        ("floats(4,0,NaN)", Box::new(|| format!("{:?}", CodeGenerator::random_float_vector(4, 0.0, f32::NAN).map(|v| v.values.len())))),
        ("floats(4,0,-1)", Box::new(|| format!("{:?}", CodeGenerator::random_float_vector(4, 0.0, -1.0).map(|v| v.values.len())))),
        ("code(5,{X})", Box::new(|| gen_code(5, "X"))),
        ("code(5,{Z})", Box::new(|| gen_code(5, "Z"))),
        ("code(9,{X})", Box::new(|| gen_code(9, "X"))),
    ];
    fn gen_code(n: usize, bound: &str) -> String {
        let mut st = pushr::push::state::PushState::new();
        st.configuration.new_erc_name_probability = 0.0;
        st.name_bindings.insert(bound.to_string(), pushr::push::item::Item::int(1));
        let ic = pushr::push::instructions::InstructionCache::new(vec!["NOOP".to_string()]);
        CodeGenerator::random_code_with_size(&st, &ic, n).to_string()
    }
    fn exec(f: &dyn Fn() -> String) -> String {
        let (r, log) = scripted(&[], 100_000, || f());
        match r {
            Ok(s) => format!("{} / {} draws", s, log.len()),
            Err(p) => format!("PANIC {}", panic_class(&p)),
        }
    }
    // baseline on pristine threads: the closures are not Send, so each baseline thread rebuilds the menu entry by index
    let k = menu.len();
    let base: Vec<String> = (0..k)
        .map(|i| {
            std::thread::spawn(move || {
                crate::core::install_panic_hook();
                // the same menu, built in the new thread
                history3_entry(i)
            })
            .join()
            .unwrap_or_else(|_| "PANIC thread".into())
        })
        .collect();
    for (i, (_, f)) in menu.iter().enumerate() {
        // self-check of the harness: the indexed rebuild is the same call
        let _ = (i, f);
    }
    for a in 0..k {
        for b in 0..k {
            for c in 0..k {
                let id = match ctx.take() {
                    Some(id) => id,
                    None => continue,
                };
                ctx.transitions += 3;
                ctx.states += 1;
                let ra = exec(&*menu[a].1);
                let rb = exec(&*menu[b].1);
                let rc = exec(&*menu[c].1);
                let mut problems = vec![];
                for (what, got, want) in [(menu[a].0, &ra, &base[a]), (menu[b].0, &rb, &base[b]), (menu[c].0, &rc, &base[c])] {
                    if got != want {
                        problems.push(format!("{} gives {} but {} alone on a pristine thread", what, crate::core::trunc(got, 160), crate::core::trunc(want, 160)));
                    }
                }
                let v = if problems.is_empty() { Verdict::Pass } else { Verdict::fail("generator", "depends-on-earlier-call", format!("sequence {}, {}, {}: {}", menu[a].0, menu[b].0, menu[c].0, problems.join("; "))) };
                let okey = format!("{}|{}|{}|{}", a, b, c, crate::core::trunc(&rc, 40));
                ctx.nontrivial_mark(&okey);
                ctx.record(id, &okey, v, || format!("{} , {} , {} on one thread", menu[a].0, menu[b].0, menu[c].0));
            }
        }
    }
}

/// menu entry `i` of `history3`, evaluated in the calling thread (used for the pristine-thread baselines)
fn history3_entry(i: usize) -> String {
    fn gen_code(n: usize, bound: &str) -> String {
        let mut st = pushr::push::state::PushState::new();
        st.configuration.new_erc_name_probability = 0.0;
        st.name_bindings.insert(bound.to_string(), pushr::push::item::Item::int(1));
        let ic = pushr::push::instructions::InstructionCache::new(vec!["NOOP".to_string()]);
        CodeGenerator::random_code_with_size(&st, &ic, n).to_string()
    }
    let (r, log) = scripted(&[], 100_000, || match i {
        0 => format!("{:?}", CodeGenerator::random_bool_vector(8, 0.25).map(|v| v.values)),
        1 => format!("{:?}", CodeGenerator::random_bool_vector(3, 1.0).map(|v| v.values)),
        2 => format!("{:?}", CodeGenerator::random_bool_vector(17, 0.5).map(|v| v.values)),
        3 => format!("{:?}", CodeGenerator::random_bool_vector(3, f32::NAN).map(|v| v.values)),
        4 => format!("{:?}", CodeGenerator::random_int_vector(3, -5, 50).map(|v| v.values)),
        5 => format!("{:?}", CodeGenerator::random_int_vector(8, 0, 2).map(|v| v.values)),
        6 => format!("{:?}", CodeGenerator::random_int_vector(3, 5, 5).map(|v| v.values)),
        7 => format!("{:?}", CodeGenerator::random_float_vector(4, 0.0, 1.0).map(|v| v.values)),
        8 => format!("{:?}", CodeGenerator::random_float_vector(4, 2.0, 0.5).map(|v| v.values)),
        9 => format!("{:?}", CodeGenerator::random_float_vector(4, 0.0, f32::INFINITY).map(|v| v.values.len())),
        10 => format!("{:?}", CodeGenerator::random_float_vector(4, 0.0, f32::NAN).map(|v| v.values.len())),
        11 => format!("{:?}", CodeGenerator::random_float_vector(4, 0.0, -1.0).map(|v| v.values.len())),
        12 => gen_code(5, "X"),
        13 => gen_code(5, "Z"),
        _ => gen_code(9, "X"),
    });
    match r {
        Ok(s) => format!("{} / {} draws", s, log.len()),
        Err(p) => format!("PANIC {}", panic_class(&p)),
    }
}

pub fn run_family(ctx: &mut Ctx, f: &str) {
    if let Err(e) = crate::c12::grid_self_check() {
        let id = ctx.next_id;
        ctx.caps.push(format!("GRID SELF-CHECK FAILED: {}", e));
        ctx.record(id, "grid", Verdict::fail("harness", "grid-self-check", e), || "grid".into());
        return;
    }
    match f {
        "boolvec" => boolvec(ctx),
        "vectors" => vectors(ctx),
        "instr" => instructions(ctx),
        "history" => history(ctx),
        "counts" => counts(ctx),
        "history3" => history3(ctx),
        f => panic!("unknown family {}", f),
    }
}
