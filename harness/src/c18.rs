//! C18 — graph memory keeps its structure consistent and answers queries correctly.
//! (api) explicit-state BFS over the `Graph` API with a set-based reference model;
//! (instr) BFS over GRAPH.* instruction histories (operands supplied per action)
//! through the real interpreter step against the reference rows, with snapshots
//! (GRAPH.DUP) and history reads.

use crate::core::{guarded, live_history, panic_class, step_once, with_instr, Ctx, LiveStep, Outcome, Real, Verdict};
use crate::model::{g_of, G, M};
use crate::refmodel::{self, graph_sets_equal};
use pushr::push::graph::Graph;
use std::collections::{HashSet, VecDeque};

#[derive(Clone, Debug)]
enum Op {
    AddNode(i32),
    RemoveNode(usize),
    AddEdge(usize, usize, f32),
    RemoveEdge(usize, usize),
    SetState(usize, i32),
    SetWeight(usize, usize, f32),
    Snapshot,
}

fn model_apply(g: &mut G, next: &mut usize, op: &Op) {
    match op {
        Op::AddNode(s) => {
            g.nodes.insert(*next, *s);
            *next += 1;
        }
        Op::RemoveNode(id) => {
            g.nodes.remove(id);
            g.edges.remove(id);
            for (_, inc) in g.edges.iter_mut() {
                inc.retain(|(o, _)| o != id);
            }
        }
        Op::AddEdge(o, d, w) => {
            if g.nodes.contains_key(o) && g.nodes.contains_key(d) {
                let inc = g.edges.entry(*d).or_default();
                if !inc.iter().any(|(x, _)| x == o) {
                    inc.push((*o, *w));
                }
            }
        }
        Op::RemoveEdge(o, d) => {
            if let Some(inc) = g.edges.get_mut(d) {
                inc.retain(|(x, _)| x != o);
            }
        }
        Op::SetState(id, s) => {
            if let Some(st) = g.nodes.get_mut(id) {
                *st = *s;
            }
        }
        Op::SetWeight(o, d, w) => {
            if let Some(inc) = g.edges.get_mut(d) {
                if let Some(e) = inc.iter_mut().find(|(x, _)| x == o) {
                    e.1 = *w;
                }
            }
        }
        Op::Snapshot => {}
    }
}

fn real_apply(g: &mut Graph, next: usize, op: &Op) {
    match op {
        Op::AddNode(s) => {
            pushr::push::graph::verif_set_node_counter(next);
            g.add_node(*s);
        }
        Op::RemoveNode(id) => g.remove_node(*id),
        Op::AddEdge(o, d, w) => g.add_edge(*o, *d, *w),
        Op::RemoveEdge(o, d) => g.remove_edge(*o, *d),
        Op::SetState(id, s) => g.set_state(id, *s),
        Op::SetWeight(o, d, w) => g.set_weight(o, d, *w),
        Op::Snapshot => {}
    }
}

fn set_key(g: &G) -> String {
    let mut e: Vec<(usize, usize, u32)> = vec![];
    for (d, inc) in &g.edges {
        for (o, w) in inc {
            e.push((*o, *d, w.to_bits()));
        }
    }
    e.sort();
    format!("{:?}|{:?}", g.nodes, e)
}

/// invariants on the public fields + agreement of every query with the model
fn check_graph(real: &Graph, model: &G, ids: &[usize]) -> Option<(String, String)> {
    let obs = g_of(real);
    // every edge connects two existing nodes; at most one edge per ordered pair
    let mut pairs = HashSet::new();
    for (d, inc) in &obs.edges {
        for (o, _) in inc {
            if !obs.nodes.contains_key(o) || !obs.nodes.contains_key(d) {
                return Some(("dangling-edge".into(), format!("edge {} -> {} but nodes are {:?}", o, d, obs.nodes.keys().collect::<Vec<_>>())));
            }
            if !pairs.insert((*o, *d)) {
                return Some(("duplicate-edge".into(), format!("two edges {} -> {}", o, d)));
            }
        }
    }
    if set_key(&obs) != set_key(model) {
        return Some(("model-mismatch".into(), format!("graph {} but the set model holds {}", set_key(&obs), set_key(model))));
    }
    if real.node_size() != model.nodes.len() {
        return Some(("node_size".into(), format!("{} expected {}", real.node_size(), model.nodes.len())));
    }
    let ecount: usize = model.edges.values().map(|v| v.len()).sum();
    if real.edge_size() != ecount {
        return Some(("edge_size".into(), format!("{} expected {}", real.edge_size(), ecount)));
    }
    for id in ids {
        if real.get_state(id) != model.nodes.get(id).copied() {
            return Some(("get_state".into(), format!("get_state({}) = {:?} expected {:?}", id, real.get_state(id), model.nodes.get(id))));
        }
        for d in ids {
            let want = model.edges.get(d).and_then(|inc| inc.iter().find(|(o, _)| o == id).map(|(_, w)| *w));
            if real.get_weight(id, d) != want {
                return Some(("get_weight".into(), format!("get_weight({}, {}) = {:?} expected {:?}", id, d, real.get_weight(id, d), want)));
            }
        }
    }
    for states in [vec![], vec![0], vec![0, 1], vec![7]] {
        let mut got = real.filter(&states);
        got.sort();
        got.dedup();
        let mut want: Vec<i32> = model.nodes.iter().filter(|(_, s)| states.is_empty() || states.contains(s)).map(|(k, _)| *k as i32).collect();
        want.sort();
        if got != want {
            return Some(("filter".into(), format!("filter({:?}) = {:?} expected {:?}", states, got, want)));
        }
    }
    None
}

pub fn api(ctx: &mut Ctx) {
    // family "api": <= 4 created / 3 alive to depth 7 (9); family "api4": <= 6 created / 5 alive to depth 10 (11)
    let wide = ctx.family == "api4";
    let depth_max = if wide { if ctx.tier_thorough { 11 } else { 10 } } else if ctx.tier_thorough { 9 } else { 7 };
    let max_created = if wide { 6usize } else { 4 };
    let max_alive = if wide { 5usize } else { 3 };
    // state: (real graph, model, next id, snapshot of (real, model))
    struct S {
        real: Graph,
        model: G,
        next: usize,
        snap: Option<(Graph, G)>,
        hist: Vec<String>,
    }
    let mut seen: HashSet<String> = HashSet::new();
    let mut frontier: VecDeque<S> = VecDeque::new();
    frontier.push_back(S { real: Graph::new(), model: G::default(), next: 1, snap: None, hist: vec![] });
    seen.insert("init".into());
    while let Some(s) = frontier.pop_front() {
        ctx.states += 1;
        ctx.max_depth = ctx.max_depth.max(s.hist.len() as u64);
        if s.hist.len() >= depth_max {
            continue;
        }
        // id classes: every id ever issued (live or stale), 0, a never-issued id
        let mut ids: Vec<usize> = (1..s.next).collect();
        ids.push(0);
        ids.push(99);
        let mut ops: Vec<Op> = vec![Op::Snapshot];
        // the third weight value (one ulp above the creation weight) multiplies the state space: in the thorough
        // tier it can be introduced by the first six operations of a history only
        let near_ok = !ctx.tier_thorough || s.hist.len() < 6;
        if wide {
            // the wide family concentrates on growth: nodes are added first, then only edge additions from
            // node 1 and removals, so that graphs with 4-5 nodes and nodes of out-degree >= 3 are reached
            ops.clear();
            if s.next <= max_created && s.model.nodes.len() < max_alive {
                ops.push(Op::AddNode(0));
            }
            let live: Vec<usize> = s.model.nodes.keys().copied().collect();
            if let Some(first) = live.first().copied() {
                for b in &live {
                    ops.push(Op::AddEdge(first, *b, 0.5));
                    ops.push(Op::AddEdge(*b, first, 0.5));
                }
                ops.push(Op::RemoveNode(first));
                if let Some(last) = live.last().copied() {
                    ops.push(Op::RemoveNode(last));
                    ops.push(Op::RemoveEdge(first, last));
                    ops.push(Op::SetWeight(first, last, 1.5));
                    if near_ok {
                        ops.push(Op::SetWeight(first, last, f32::from_bits(0.5f32.to_bits() + 1)));
                    }
                    ops.push(Op::SetState(last, 1));
                }
            }
            ops.push(Op::Snapshot);
        }
        let wide_ops = ops.clone();
        if wide {
            ops.clear();
        }
        if s.next <= max_created && s.model.nodes.len() < max_alive {
            ops.push(Op::AddNode(0));
            ops.push(Op::AddNode(1));
        }
        for a in ids.iter().filter(|_| !wide) {
            ops.push(Op::RemoveNode(*a));
            ops.push(Op::SetState(*a, 1));
            ops.push(Op::SetState(*a, 0));
            for b in &ids {
                ops.push(Op::AddEdge(*a, *b, 0.5));
                ops.push(Op::RemoveEdge(*a, *b));
                ops.push(Op::SetWeight(*a, *b, 1.5));
                // one ulp above the weight edges are created with
                if near_ok {
                    ops.push(Op::SetWeight(*a, *b, f32::from_bits(0.5f32.to_bits() + 1)));
                }
            }
        }
        if wide {
            ops = wide_ops;
        }
        for op in ops {
            let (id, rec) = ctx.take_exec();
            ctx.transitions += 1;
            let mut model = s.model.clone();
            let mut next = s.next;
            model_apply(&mut model, &mut next, &op);
            let r = guarded(|| {
                let mut real = s.real.clone();
                real_apply(&mut real, s.next, &op);
                real
            });
            let descr = || format!("Graph history=[{}] then {:?}", s.hist.join(", "), op);
            let real = match r {
                Err(p) => {
                    ctx.record_if(rec, id, &panic_class(&p), Verdict::fail("Graph", &panic_class(&p), p), descr);
                    continue;
                }
                Ok(g) => g,
            };
            let mut problem = check_graph(&real, &model, &ids);
            // snapshot independence and diff
            let snap = if matches!(op, Op::Snapshot) { Some((real.clone(), model.clone())) } else { s.snap.clone() };
            if problem.is_none() {
                if let Some((sr, sm)) = &snap {
                    if set_key(&g_of(sr)) != set_key(sm) {
                        problem = Some(("snapshot-changed".into(), format!("snapshot is now {} but was {}", set_key(&g_of(sr)), set_key(sm))));
                    } else {
                        let d = guarded(|| sr.diff(&real));
                        match d {
                            Err(p) => problem = Some((panic_class(&p), p)),
                            Ok(d) => {
                                let same = graph_sets_equal(sm, &model);
                                if d.is_none() != same {
                                    problem = Some(("diff".into(), format!("diff is {:?} but the model says equal = {} (snapshot {} vs {})", d, same, set_key(sm), set_key(&model))));
                                }
                            }
                        }
                    }
                }
            }
            let k = format!("{}|{}|{}", set_key(&model), next, snap.as_ref().map(|(_, m)| set_key(m)).unwrap_or_default());
            let verdict = match problem {
                None => Verdict::Pass,
                Some((class, detail)) => Verdict::fail("Graph", &class, detail),
            };
            if set_key(&model) != set_key(&s.model) {
                ctx.nontrivial_mark(&k);
            }
            let failed = !matches!(verdict, Verdict::Pass);
            ctx.record_if(rec, id, &k, verdict, descr);
            if !failed && !seen.contains(&k) {
                seen.insert(k);
                let mut hist = s.hist.clone();
                hist.push(format!("{:?}", op));
                frontier.push_back(S { real, model, next, snap, hist });
            }
        }
    }
    ctx.caps.push(format!("Graph API: depth bound {}, <= {} nodes created, <= {} alive", depth_max, max_created, max_alive));
    ctx.fixpoint = Some(false);
}

// ---------------------------------------------------------------------------
// instruction level

#[derive(Clone, Debug)]
struct Act {
    name: &'static str,
    i: Vec<i32>,
    f: Vec<f32>,
    iv: Vec<Vec<i32>>,
    bv: Vec<Vec<bool>>,
}
fn act(name: &'static str, i: Vec<i32>, f: Vec<f32>, iv: Vec<Vec<i32>>, bv: Vec<Vec<bool>>) -> Act {
    Act { name, i, f, iv, bv }
}

fn actions(ids: &[i32]) -> Vec<Act> {
    let mut v = vec![act("GRAPH.ADD", vec![], vec![], vec![], vec![]), act("GRAPH.DUP", vec![], vec![], vec![], vec![]), act("GRAPH.STACKDEPTH", vec![], vec![], vec![], vec![]), act("GRAPH.PRINT", vec![], vec![], vec![], vec![]), act("GRAPH.PRINT*DIFF", vec![], vec![], vec![], vec![])];
    for s in [0, 1] {
        v.push(act("GRAPH.NODE*ADD", vec![s], vec![], vec![], vec![]));
    }
    let poss = [-1, 0, 1, 2, 500];
    let filters = [vec![], vec![0], vec![0, 1]];
    for a in ids {
        // operand order: top first
        v.push(act("GRAPH.NODE*GETSTATE", vec![*a], vec![], vec![], vec![]));
        for s in [0, 1] {
            v.push(act("GRAPH.NODE*SETSTATE", vec![s, *a], vec![], vec![], vec![]));
        }
        for p in poss {
            v.push(act("GRAPH.NODE*HISTORY", vec![p, *a], vec![], vec![], vec![]));
        }
        for fl in &filters {
            for n in ["GRAPH.NODE*PREDECESSORS", "GRAPH.NODE*SUCCESSORS", "GRAPH.NODE*NEIGHBORS"] {
                v.push(act(n, vec![*a], vec![], vec![fl.clone()], vec![]));
            }
        }
        for b in ids {
            // origin second, destination top
            v.push(act("GRAPH.EDGE*ADD", vec![*b, *a], vec![0.5], vec![], vec![]));
            v.push(act("GRAPH.EDGE*SETWEIGHT", vec![*b, *a], vec![1.5], vec![], vec![]));
            v.push(act("GRAPH.EDGE*SETWEIGHT", vec![*b, *a], vec![f32::from_bits(0.5f32.to_bits() + 1)], vec![], vec![]));
            v.push(act("GRAPH.EDGE*GETWEIGHT", vec![*b, *a], vec![], vec![], vec![]));
            for p in [0, 1, 2] {
                v.push(act("GRAPH.EDGE*HISTORY", vec![p, *b, *a], vec![], vec![], vec![]));
            }
        }
    }
    for fl in &filters {
        v.push(act("GRAPH.NODES", vec![], vec![], vec![fl.clone()], vec![]));
        for p in poss {
            v.push(act("GRAPH.NODES*HISTORY", vec![p], vec![], vec![fl.clone()], vec![]));
        }
    }
    if ids.len() >= 2 {
        for sw in [vec![true], vec![false, true], vec![]] {
            v.push(act("GRAPH.NODE*STATESWITCH", vec![0, 1], vec![], vec![vec![ids[0], ids[1], -1]], vec![sw]));
        }
    }
    v
}

fn graphs_key(gs: &[G]) -> String {
    gs.iter().map(set_key).collect::<Vec<_>>().join(" || ")
}

pub fn instr(ctx: &mut Ctx) {
    let mut real = Real::new();
    let depth_max = if ctx.tier_thorough { 8 } else { 6 };
    // state: graph stack (model, verified equal to the real one after each step) + next node id
    let mut seen: HashSet<String> = HashSet::new();
    let mut frontier: VecDeque<(Vec<G>, usize, Vec<String>, Vec<Act>)> = VecDeque::new();
    frontier.push_back((vec![], 1, vec![], vec![]));
    seen.insert(String::new());
    while let Some((graphs, next, hist, ahist)) = frontier.pop_front() {
        ctx.states += 1;
        ctx.max_depth = ctx.max_depth.max(hist.len() as u64);
        let mut ids: Vec<i32> = (1..next as i32).collect();
        ids.extend([0, -1, 99, i32::MAX]);
        for a in actions(&ids) {
            let (id, rec) = ctx.take_exec();
            ctx.transitions += 1;
            let mut m0 = M::default();
            m0.graphs = graphs.clone();
            m0.i = a.i.clone();
            m0.i.push(77);
            m0.f = a.f.clone();
            m0.iv = a.iv.clone();
            m0.bv = a.bv.clone();
            refmodel::set_next_node_id(next);
            let out = step_once(&mut real, &with_instr(&m0, a.name));
            let mut verdict = refmodel::judge(a.name, &m0, &out);
            // structural invariants on every graph of the stack, and snapshot independence:
            // graphs below the top are never altered by an instruction
            if matches!(verdict, Verdict::Pass) {
                if let Outcome::Ok(g) = &out {
                    for gr in &g.graphs {
                        for (d, inc) in &gr.edges {
                            for (o, _) in inc {
                                if !gr.nodes.contains_key(o) || !gr.nodes.contains_key(d) {
                                    verdict = Verdict::fail(a.name, "dangling-edge", format!("edge {} -> {}", o, d));
                                }
                            }
                        }
                    }
                    if g.graphs.len() >= graphs.len() && graphs.len() >= 2 {
                        let off = g.graphs.len() - graphs.len();
                        for k in 1..graphs.len() {
                            if !graph_sets_equal(&g.graphs[off + k], &graphs[k]) {
                                verdict = Verdict::fail(a.name, "snapshot-changed", format!("graph at depth {} changed", k));
                            }
                        }
                    }
                }
            }
            // the same history on ONE live state (the graph stack is never rebuilt): same graphs, same answers.
            // Done for every transition of short histories and for every transition that reaches a new state.
            if matches!(verdict, Verdict::Pass) {
                if let Outcome::Ok(g) = &out {
                    let nnext = if a.name == "GRAPH.NODE*ADD" && !graphs.is_empty() { next + 1 } else { next };
                    let newstate = !seen.contains(&format!("{}#{}", graphs_key(&g.graphs), nnext));
                    if hist.len() <= 2 || newstate {
                        let steps: Vec<LiveStep> = ahist
                            .iter()
                            .chain(std::iter::once(&a))
                            .map(|x| {
                                let x = x.clone();
                                LiveStep {
                                    pre: Box::new(move |st| {
                                        let mut m = M::default();
                                        m.i = x.i.clone();
                                        m.i.push(77);
                                        m.f = x.f.clone();
                                        m.iv = x.iv.clone();
                                        m.bv = x.bv.clone();
                                        let t = crate::model::build(&m);
                                        st.int_stack = t.int_stack;
                                        st.float_stack = t.float_stack;
                                        st.int_vector_stack = t.int_vector_stack;
                                        st.bool_vector_stack = t.bool_vector_stack;
                                    }),
                                    push: Some(crate::model::Tree::ins(x.name)),
                                }
                            })
                            .collect();
                        refmodel::set_next_node_id(1);
                        let live = live_history(&mut real, &M::default(), &steps);
                        match live {
                            Outcome::Ok(l) => {
                                let same = graphs_key(&l.graphs) == graphs_key(&g.graphs) && l.i == g.i && l.iv.len() == g.iv.len() && l.f.len() == g.f.len() && l.f.iter().zip(&g.f).all(|(x, y)| x.to_bits() == y.to_bits()) && l.iv.iter().zip(&g.iv).all(|(x, y)| {
                                    let (mut x, mut y) = (x.clone(), y.clone());
                                    x.sort();
                                    y.sort();
                                    x == y
                                });
                                if !same {
                                    verdict = Verdict::fail(a.name, "live-history-differs", format!("executed on one live state the history ends in graphs {{{}}} I={:?} IV={:?}, step by step from rebuilt states in {{{}}} I={:?} IV={:?}", graphs_key(&l.graphs), l.i, l.iv, graphs_key(&g.graphs), g.i, g.iv));
                                }
                            }
                            Outcome::Panic(p) => verdict = Verdict::fail(a.name, &panic_class(&p), format!("live history: {}", p)),
                        }
                    }
                }
            }
            refmodel::set_next_node_id(refmodel::NEXT_NODE_ID);
            let okey = format!("{}|{}", a.name, out.key());
            let failed = !matches!(verdict, Verdict::Pass | Verdict::Known(_));
            if let Outcome::Ok(g) = &out {
                if graphs_key(&g.graphs) != graphs_key(&graphs) {
                    ctx.nontrivial_mark(&okey);
                }
            }
            ctx.record_if(rec, id, &okey, verdict, || format!("history=[{}] graphs={{{}}} then {} I={:?} F={:?} IV={:?} BV={:?}", hist.join(", "), graphs_key(&graphs), a.name, a.i, a.f, a.iv, a.bv));
            if failed || hist.len() >= depth_max {
                continue;
            }
            if let Outcome::Ok(g) = out {
                let nnext = if a.name == "GRAPH.NODE*ADD" && !graphs.is_empty() { next + 1 } else { next };
                let alive: usize = g.graphs.first().map(|x| x.nodes.len()).unwrap_or(0);
                if g.graphs.len() > 3 || alive > 3 || nnext > 4 {
                    continue;
                }
                let k = format!("{}#{}", graphs_key(&g.graphs), nnext);
                if !seen.contains(&k) {
                    seen.insert(k);
                    let mut h = hist.clone();
                    h.push(format!("{} {:?}{:?}", a.name, a.i, a.f));
                    let mut ah = ahist.clone();
                    ah.push(a.clone());
                    frontier.push_back((g.graphs, nnext, h, ah));
                }
            }
        }
    }
    // weight ladder: every weight of the boundary alphabet (infinities, NaN, subnormals, -0.0, MAX, near-equal pairs)
    // given to a NEW edge and to an existing one, read back, snapshotted and diffed
    {
        let ws = crate::alpha::floats_boundary(false);
        for w1 in &ws {
            for w2 in [*w1, 0.5, f32::INFINITY, 1e-40] {
                let mut m = M::default();
                let mut g = G::default();
                g.nodes.insert(1, 0);
                g.nodes.insert(2, 1);
                m.graphs = vec![g];
                let script: Vec<(&str, Vec<i32>, Vec<f32>)> = vec![
                    ("GRAPH.EDGE*ADD", vec![2, 1], vec![*w1]),
                    ("GRAPH.EDGE*GETWEIGHT", vec![2, 1], vec![]),
                    ("GRAPH.DUP", vec![], vec![]),
                    ("GRAPH.EDGE*SETWEIGHT", vec![2, 1], vec![w2]),
                    ("GRAPH.EDGE*GETWEIGHT", vec![2, 1], vec![]),
                    ("GRAPH.EDGE*HISTORY", vec![1, 2, 1], vec![]),
                    ("GRAPH.PRINT*DIFF", vec![], vec![]),
                ];
                for (name, ints, floats) in script {
                    let (id, rec) = ctx.take_exec();
                    ctx.transitions += 1;
                    let mut m0 = m.clone();
                    m0.i = ints.clone();
                    m0.f = floats.clone();
                    m0.n.clear();
                    refmodel::set_next_node_id(3);
                    let out = step_once(&mut real, &with_instr(&m0, name));
                    refmodel::set_next_node_id(refmodel::NEXT_NODE_ID);
                    let v = refmodel::judge(name, &m0, &out);
                    ctx.record_if(rec, id, &format!("w|{}|{}", name, out.key()), v, || format!("weight ladder: {} with weights {} then {}", name, w1, w2));
                    match out {
                        Outcome::Ok(g) => m = g,
                        Outcome::Panic(_) => break,
                    }
                }
            }
        }
    }
    // the straight history of 101 GRAPH.DUPs on a capacity-100 graph stack
    {
        let mut m = M::default();
        m.graphs = vec![crate::alpha::graph_small()];
        let node = *m.graphs[0].nodes.keys().next().unwrap() as i32;
        'ladder: for k in 0..103 {
            // duplicate, then change the top graph: every snapshot holds its own generation
            for (name, ints) in [("GRAPH.DUP", vec![]), ("GRAPH.NODE*SETSTATE", vec![1000 + k, node])] {
                let (id, rec) = ctx.take_exec();
                ctx.transitions += 1;
                let mut m0 = m.clone();
                m0.i = ints.clone();
                let out = step_once(&mut real, &with_instr(&m0, name));
                let v = refmodel::judge(name, &m0, &out);
                ctx.record_if(rec, id, &format!("{}{}|{}", name, k, m.graphs.len()), v, || format!("{} number {} on a stack of {}", name, k + 1, m.graphs.len()));
                match out {
                    Outcome::Ok(g) => m = g,
                    Outcome::Panic(_) => break 'ladder,
                }
            }
            if [1usize, 9, 10, 11, 12, 50, 98, 99, 100].contains(&m.graphs.len()) {
                for pos in [0i32, 1, 8, 9, 10, 11, 12, 49, 97, 98, 99, 100, 101] {
                    for (name, ints, ivs) in [("GRAPH.NODE*HISTORY", vec![pos, node], vec![]), ("GRAPH.NODES*HISTORY", vec![pos], vec![vec![]]), ("GRAPH.STACKDEPTH", vec![], vec![])] {
                        let (id, rec) = ctx.take_exec();
                        ctx.transitions += 1;
                        let mut m0 = m.clone();
                        m0.i = ints.clone();
                        m0.iv = ivs.clone();
                        let out = step_once(&mut real, &with_instr(&m0, name));
                        let v = refmodel::judge(name, &m0, &out);
                        ctx.record_if(rec, id, &format!("{}@{}|{}", name, pos, m.graphs.len()), v, || format!("{} at depth {} on a stack of {}", name, pos, m.graphs.len()));
                    }
                }
            }
        }
    }
    ctx.caps.push(format!("GRAPH.* histories: depth bound {}", depth_max));
    ctx.fixpoint = Some(false);
}

pub fn run(ctx: &mut Ctx) {
    match ctx.family.as_str() {
        "api" | "api4" => api(ctx),
        "instr" => instr(ctx),
        f => panic!("unknown family {}", f),
    }
}
