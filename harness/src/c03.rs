//! C03 — the parser accepts every string and builds exactly the described tree.
//! C11 — printing a program and parsing the text back reproduces it.
//! Exhaustive over all token sequences / character strings up to a length bound;
//! the oracle is an independent recursive-descent reference plus "no panic".

use crate::alpha::populated;
use crate::core::{guarded, panic_class, step_once, with_instr, Ctx, Outcome, Real, Verdict};
use crate::model::{build, item_of, observe, Comp, Tree, M};
use crate::refmodel::display;
use crate::treeops::trees_up_to;
use pushr::push::parser::PushParser;
use pushr::push::stack::PushStack;

pub fn parse_real(real: &Real, base: &M, input: &str) -> Outcome {
    let r = guarded(|| {
        let mut st = build(base);
        PushParser::parse_program(&mut st, &real.iset, input);
        observe(&st)
    });
    match r {
        Ok(m) => Outcome::Ok(m),
        Err(p) => Outcome::Panic(p),
    }
}

#[derive(Clone, Debug, PartialEq)]
enum Tok {
    Open,
    Close,
    Item(Tree),
    /// malformed vector literal: contributes nothing
    Nothing,
    /// `INT[]`-style literal: empty vector, or nothing (documentation silent)
    EmptyVec(Tree),
}

fn vector_literal(token: &str) -> Option<Tok> {
    let (kind, rest) = if let Some(r) = token.strip_prefix("INT[") {
        (0, r)
    } else if let Some(r) = token.strip_prefix("FLOAT[") {
        (1, r)
    } else if let Some(r) = token.strip_prefix("BOOL[") {
        (2, r)
    } else {
        return None;
    };
    let inner = match rest.strip_suffix(']') {
        Some(i) => i,
        None => return Some(Tok::Nothing),
    };
    if inner.is_empty() {
        return Some(Tok::EmptyVec(match kind {
            0 => Tree::IV(vec![]),
            1 => Tree::FV(vec![]),
            _ => Tree::BV(vec![]),
        }));
    }
    let parts: Vec<&str> = inner.split(',').collect();
    match kind {
        0 => {
            let mut v = vec![];
            for p in parts {
                match p.parse::<i32>() {
                    Ok(x) => v.push(x),
                    Err(_) => return Some(Tok::Nothing),
                }
            }
            Some(Tok::Item(Tree::IV(v)))
        }
        1 => {
            let mut v = vec![];
            for p in parts {
                match p.parse::<f32>() {
                    Ok(x) => v.push(x),
                    Err(_) => return Some(Tok::Nothing),
                }
            }
            Some(Tok::Item(Tree::FV(v)))
        }
        _ => {
            let mut v = vec![];
            for p in parts {
                match p {
                    "1" | "true" => v.push(true),
                    "0" | "false" => v.push(false),
                    _ => return Some(Tok::Nothing),
                }
            }
            Some(Tok::Item(Tree::BV(v)))
        }
    }
}

/// the documented lexical cascade
fn classify(token: &str, is_instr: &dyn Fn(&str) -> bool) -> Tok {
    if let Some(t) = vector_literal(token) {
        return t;
    }
    if token == "(" {
        return Tok::Open;
    }
    if token == ")" {
        return Tok::Close;
    }
    if is_instr(token) {
        return Tok::Item(Tree::ins(token));
    }
    if let Ok(i) = token.parse::<i32>() {
        return Tok::Item(Tree::I(i));
    }
    if let Ok(f) = token.parse::<f32>() {
        return Tok::Item(Tree::F(f));
    }
    match token {
        "TRUE" => Tok::Item(Tree::B(true)),
        "FALSE" => Tok::Item(Tree::B(false)),
        _ => Tok::Item(Tree::name(token)),
    }
}

/// Top-level items in textual order, or None if the parentheses are not balanced.
fn ref_parse(input: &str, is_instr: &dyn Fn(&str) -> bool, empty_vec_is_item: bool) -> Option<Vec<Tree>> {
    let mut stack: Vec<Vec<Tree>> = vec![vec![]];
    for token in input.split_whitespace() {
        match classify(token, is_instr) {
            Tok::Open => stack.push(vec![]),
            Tok::Close => {
                if stack.len() < 2 {
                    return None;
                }
                let l = stack.pop().unwrap();
                stack.last_mut().unwrap().push(Tree::L(l));
            }
            Tok::Item(t) => stack.last_mut().unwrap().push(t),
            Tok::Nothing => {}
            Tok::EmptyVec(t) => {
                if empty_vec_is_item {
                    stack.last_mut().unwrap().push(t)
                }
            }
        }
    }
    if stack.len() != 1 {
        return None;
    }
    stack.pop()
}

fn judge_parse(real: &Real, base: &M, input: &str, out: &Outcome) -> (Verdict, bool) {
    let got = match out {
        Outcome::Panic(p) => return (Verdict::fail("parser", &panic_class(p), p.clone()), true),
        Outcome::Ok(g) => g,
    };
    // never any stack other than EXEC
    let others: Vec<Comp> = base.diff(got).into_iter().filter(|c| *c != Comp::E).collect();
    if !others.is_empty() {
        return (Verdict::fail("parser", "touches-other-stacks", format!("changed {:?}", others)), true);
    }
    let is_instr = |t: &str| real.icache.list.iter().any(|n| n == t);
    let mut balanced = false;
    let mut expected_any = vec![];
    for ev in [false, true] {
        if let Some(items) = ref_parse(input, &is_instr, ev) {
            balanced = true;
            let mut e = base.e.clone();
            e.extend(items);
            expected_any.push(e);
        }
    }
    if !balanced {
        return (Verdict::Pass, false);
    }
    if expected_any.iter().any(|e| *e == got.e) {
        (Verdict::Pass, true)
    } else {
        let want: Vec<String> = expected_any[0].iter().map(|t| t.key()).collect();
        let have: Vec<String> = got.e.iter().map(|t| t.key()).collect();
        (Verdict::fail("parser", "tree-mismatch", format!("EXEC is [{}] expected [{}]", have.join(" "), want.join(" "))), true)
    }
}

const TOKENS: [&str; 34] = [
    "(", ")", "1.0000000596046448", "FLOAT[1.0000000596046448,340282356779733661637539395458142568447]", "340282356779733661637539395458142568447", "1", "16777217", "-2147483648", "-1000000000", "+2147483647", "00000000042", "-7", "+5", "2147483648", "1.5", "1e3", "inf", "NaN", "TRUE", "FALSE", "true", "foo", "INTEGER.+", "INT[1,2]", "INT[]", "INT[", "INT[x]", "INT[1,é", "BOOL[1,0]", "BOOL[2]", "BOOL[", "FLOAT[1.5,inf]", "FLOAT[", "é",
];
// U+00A0 (no-break space) and U+000B (vertical tab) are white space, but not ASCII white space
const CHARS: [char; 13] = ['I', 'N', 'T', '[', ']', '(', ')', ',', '1', ' ', 'é', '\u{a0}', '\u{b}'];

fn run_input(ctx: &mut Ctx, real: &Real, bases: &[(&str, M)], input: &str) {
    for (bl, base) in bases {
        let id = match ctx.take() {
            Some(id) => id,
            None => continue,
        };
        ctx.transitions += 1;
        ctx.crumb(id, "parse");
        let out = parse_real(real, base, input);
        let (verdict, nontrivial) = judge_parse(real, base, input, &out);
        let okey = match &out {
            Outcome::Ok(g) => g.comp_key(Comp::E),
            Outcome::Panic(p) => panic_class(p),
        };
        if nontrivial {
            ctx.nontrivial_mark(&okey);
            ctx.states += 1;
        }
        ctx.record(id, &okey, verdict, || format!("parse {:?} into the {} state", input, bl));
    }
}

pub fn tokens(ctx: &mut Ctx) {
    let real = Real::new();
    let k = if ctx.tier_thorough { 5 } else { 4 };
    let mut tb = populated();
    for (k, t) in TOKENS.iter().enumerate() {
        tb.bindings.insert(t.to_string(), if k % 2 == 0 { Tree::I(900 + k as i32) } else { Tree::L(vec![Tree::B(true)]) });
    }
    tb.quote = true;
    // what a token is does not depend on the bindings (a name that reads like an instruction or a literal may be bound)
    let bases = vec![("empty", M::default()), ("populated", populated()), ("every-token-bound", tb)];
    let only_empty = vec![("empty", M::default())];
    let n = TOKENS.len();
    for len in 0..=k {
        let total = n.pow(len as u32);
        for code in 0..total {
            let mut c = code;
            let mut toks = Vec::with_capacity(len);
            for _ in 0..len {
                toks.push(TOKENS[c % n]);
                c /= n;
            }
            // the populated state only for the shorter sequences (it multiplies the space by two)
            let b = if len <= k - 1 { &bases } else { &only_empty };
            run_input(ctx, &real, b, &toks.join(" "));
            if len >= 2 && len <= k - 1 {
                run_input(ctx, &real, &only_empty, &toks.join("\n\t "));
                // Unicode white space separates tokens like a blank does
                run_input(ctx, &real, &only_empty, &toks.join("\u{2003}"));
                run_input(ctx, &real, &only_empty, &toks.join("\u{a0}\u{b}"));
            }
        }
    }
}

/// the same texts under different instruction sets, in alternation on one thread: what a token is depends
/// on the set passed to THIS call (a set that grew, another set of the same size, an empty set)
pub fn sets(ctx: &mut Ctx) {
    fn with(extra: Option<&str>, load: bool) -> Real {
        let mut iset = pushr::push::instructions::InstructionSet::new();
        if load {
            iset.load();
        }
        if let Some(n) = extra {
            iset.add(n.to_string(), pushr::push::instructions::Instruction::new(|_s: &mut pushr::push::state::PushState, _c: &pushr::push::instructions::InstructionCache| {}));
        }
        let icache = iset.cache();
        Real { iset, icache }
    }
    let s0 = with(None, true);
    let s1 = with(Some("foo"), true);
    let s2 = with(Some("bar"), true);
    let s3 = with(None, false);
    let order: Vec<(&str, &Real)> = vec![("default", &s0), ("default+foo", &s1), ("default+bar", &s2), ("default+foo", &s1), ("empty set", &s3), ("default", &s0), ("default+bar", &s2)];
    let mut toks: Vec<&str> = TOKENS.to_vec();
    toks.push("bar");
    let base = vec![("empty", M::default())];
    let mut texts: Vec<String> = vec![String::new()];
    for a in &toks {
        texts.push(a.to_string());
        for b in &toks {
            texts.push(format!("{} {}", a, b));
        }
    }
    texts.push("( foo ( bar INTEGER.+ ) foo )".to_string());
    for t in &texts {
        for (_label, real) in &order {
            run_input(ctx, real, &base, t);
        }
    }
}

pub fn chars(ctx: &mut Ctx) {
    let real = Real::new();
    let k = if ctx.tier_thorough { 7 } else { 5 };
    let bases = vec![("empty", M::default())];
    let n = CHARS.len();
    for len in 0..=k {
        let total = n.pow(len as u32);
        for code in 0..total {
            let mut c = code;
            let mut s = String::with_capacity(len * 2);
            for _ in 0..len {
                s.push(CHARS[c % n]);
                c /= n;
            }
            run_input(ctx, &real, &bases, &s);
        }
    }
}

pub fn ladder(ctx: &mut Ctx) {
    let real = Real::new();
    let bases = vec![("empty", M::default()), ("populated", populated())];
    for n in [1usize, 10, 1000, 100_000] {
        run_input(ctx, &real, &bases, &"x".repeat(n));
        run_input(ctx, &real, &bases, &"7".repeat(n));
        run_input(ctx, &real, &bases, &format!("INT[{}]", vec!["1"; n].join(",")));
        run_input(ctx, &real, &bases, &format!("INT[{}", "1,".repeat(n)));
        run_input(ctx, &real, &bases, &"é".repeat(n));
    }
    let depths: &[usize] = if ctx.tier_thorough { &[1, 16, 256, 4096] } else { &[1, 16, 256, 1024] };
    for d in depths {
        run_input(ctx, &real, &bases, &format!("{} 1 {}", "( ".repeat(*d), ") ".repeat(*d)));
        run_input(ctx, &real, &bases, &format!("{} 1", "( ".repeat(*d)));
        run_input(ctx, &real, &bases, &format!("1 {}", ") ".repeat(*d)));
    }
}

// ---------------------------------------------------------------------------
// C11

fn atoms_exact() -> Vec<Tree> {
    vec![
        Tree::I(0),
        Tree::I(-1),
        Tree::I(5),
        Tree::I(i32::MIN),
        Tree::I(i32::MAX),
        // integers that single precision cannot hold: the parser tries i32 before f32 and must keep it that way
        Tree::I(16_777_217),
        Tree::I(-2_000_000_001),
        Tree::B(true),
        Tree::B(false),
        Tree::name("A"),
        Tree::name("x1"),
        // near-miss spellings of literals and instructions are names
        Tree::name("true"),
        Tree::name("False"),
        Tree::name("integer.+"),
        Tree::ins("INTEGER.+"),
        Tree::ins("NOOP"),
        Tree::ins("CODE.QUOTE"),
    ]
}
fn atoms_float_near() -> Vec<Tree> {
    crate::alpha::near_floats().into_iter().map(Tree::F).collect()
}
fn atoms_float() -> Vec<Tree> {
    vec![
        Tree::F(0.0),
        Tree::F(-0.0),
        // negative values that print as -0.000
        Tree::F(-0.0004),
        Tree::F(-1e-40),
        Tree::F(1.0),
        Tree::F(1.5),
        Tree::F(0.0004),
        Tree::F(1e10),
        Tree::F(f32::MAX),
        Tree::F(f32::INFINITY),
        Tree::F(f32::NEG_INFINITY),
        Tree::F(f32::NAN),
        Tree::I(7),
        Tree::name("A"),
    ]
}

/// the three printing routes of the property
fn print_routes(real: &mut Real, t: &Tree) -> Result<Vec<(&'static str, String, Vec<Tree>)>, String> {
    let mut out = vec![];
    // 1. Display of the item itself
    let s1 = guarded(|| item_of(t).to_string())?;
    out.push(("Item::to_string", s1, vec![t.clone()]));
    // 2. PushStack::to_string of a stack holding the item between two neighbours
    let neighbours = vec![Tree::I(3), t.clone(), Tree::L(vec![Tree::name("A")])];
    let s2 = guarded(|| {
        let st: PushStack<pushr::push::item::Item> = PushStack::from_vec(neighbours.iter().rev().map(item_of).collect());
        st.to_string()
    })?;
    out.push(("PushStack::to_string", s2, neighbours.clone()));
    // 2b. a deep stack: the item under 12 others
    let mut deep: Vec<Tree> = (0..12).map(|k| Tree::I(100 + k)).collect();
    deep.push(t.clone());
    let s2b = guarded(|| {
        let st: PushStack<pushr::push::item::Item> = PushStack::from_vec(deep.iter().rev().map(item_of).collect());
        st.to_string()
    })?;
    out.push(("PushStack::to_string (deep)", s2b, deep.clone()));
    // 3. CODE.PRINT through the interpreter
    let mut m = M::default();
    m.c = neighbours.clone();
    match step_once(real, &with_instr(&m, "CODE.PRINT")) {
        Outcome::Ok(g) => {
            if g.n.len() != 1 {
                return Err("CODE.PRINT pushed no name".into());
            }
            out.push(("CODE.PRINT", g.n[0].clone(), neighbours));
        }
        Outcome::Panic(p) => return Err(p),
    }
    Ok(out)
}

pub fn roundtrip(ctx: &mut Ctx, floats: bool) {
    let mut real = Real::new();
    let s = if ctx.tier_thorough { 5 } else { 4 };
    let mut trees = trees_up_to(s, &if floats { atoms_float() } else { atoms_exact() });
    if floats {
        trees.extend(trees_up_to(3, &atoms_float_near()));
    }
    // deeply nested programs (48 and 30 levels)
    for d in [30usize, 48] {
        let mut t = Tree::L(vec![if floats { Tree::F(1.5) } else { Tree::I(1) }]);
        for k in 0..d {
            t = if k % 2 == 0 { Tree::L(vec![t]) } else { Tree::L(vec![Tree::name("A"), t, Tree::B(true)]) };
        }
        trees.push(t);
    }
    // wide lists (direct element counts around 10, 16, 32, 100), also nested
    for n in [9usize, 10, 11, 12, 16, 17, 33, 100, 101] {
        let leaf = |k: usize| if floats { Tree::F(k as f32 + 0.5) } else { Tree::I(k as i32) };
        trees.push(Tree::L((0..n).map(leaf).collect()));
        trees.push(Tree::L(vec![Tree::name("A"), Tree::L((0..n).map(leaf).collect()), Tree::L(vec![])]));
        trees.push(Tree::L((0..n).map(|k| if k % 4 == 1 { Tree::L(vec![leaf(k), Tree::L(vec![])]) } else { leaf(k) }).collect()));
    }
    ctx.extra.push(("trees".into(), crate::core::J::Int(trees.len() as i64)));
    for t in &trees {
        let id = match ctx.take() {
            Some(id) => id,
            None => continue,
        };
        ctx.transitions += 1;
        ctx.states += 1;
        ctx.crumb(id, "roundtrip");
        let mut problems: Vec<(String, String)> = vec![];
        let mut okey = String::new();
        match print_routes(&mut real, t) {
            Err(p) => problems.push((panic_class(&p), p)),
            Ok(routes) => {
                for (route, text, original) in routes {
                    okey = text.clone();
                    if !floats {
                        // the same text parsed in a state where the names it mentions are bound (and a NAME.QUOTE is pending)
                        let mut bound = M::default();
                        for (k, n) in ["A", "B", "X", "Y", "N1", "foo", "bar", "NOOP", "INTEGER.+", "TRUE", "1"].iter().enumerate() {
                            bound.bindings.insert(n.to_string(), Tree::I(700 + k as i32));
                        }
                        bound.quote = true;
                        match parse_real(&real, &bound, &text) {
                            Outcome::Panic(p) => problems.push((panic_class(&p), format!("{}: parsing {:?} with bound names: {}", route, text, p))),
                            Outcome::Ok(g2) => {
                                if g2.e != original {
                                    problems.push((format!("roundtrip-bound:{}", route), format!("printed {:?}; parsed back in a state with bound names as [{}]", text, g2.e.iter().map(|x| x.key()).collect::<Vec<_>>().join(" "))));
                                }
                            }
                        }
                    }
                    let parsed = parse_real(&real, &M::default(), &text);
                    let g = match parsed {
                        Outcome::Panic(p) => {
                            problems.push((panic_class(&p), format!("{}: parsing {:?}: {}", route, text, p)));
                            continue;
                        }
                        Outcome::Ok(g) => g,
                    };
                    if !floats {
                        // structural equality by an independent walk (Tree::eq), not Item::equals
                        if g.e != original {
                            problems.push((
                                format!("roundtrip:{}", route),
                                format!("printed {:?}; parsed back as [{}], original [{}]", text, g.e.iter().map(|x| x.key()).collect::<Vec<_>>().join(" "), original.iter().map(|x| x.key()).collect::<Vec<_>>().join(" ")),
                            ));
                        }
                    } else {
                        // print(parse(print(t))) == print(t), printed the same way
                        let again = g.e.iter().map(display).collect::<Vec<_>>().join(" ");
                        let again_real = guarded(|| {
                            let st: PushStack<pushr::push::item::Item> = PushStack::from_vec(g.e.iter().rev().map(item_of).collect());
                            st.to_string()
                        })
                        .unwrap_or_else(|p| format!("<panic {}>", p));
                        if again_real != text {
                            problems.push((format!("reprint:{}", route), format!("printed {:?}, after parsing prints {:?}", text, again_real)));
                        }
                        // and the harness's own rendering agrees with pushr's (keeps the reference honest)
                        if again != again_real {
                            problems.push(("display-reference".into(), format!("reference rendering {:?} vs pushr {:?}", again, again_real)));
                        }
                    }
                }
            }
        }
        let verdict = match problems.first() {
            None => Verdict::Pass,
            Some((class, detail)) => Verdict::fail("print/parse", class, detail.clone()),
        };
        ctx.nontrivial_mark(&okey);
        ctx.record(id, &okey, verdict, || format!("tree {}", t.key()));
    }
}

/// a token that was a name while it was not registered is an instruction once it is (InstructionSet::add):
/// round trips under the set as it is at the time
pub fn roundtrip_sets(ctx: &mut Ctx) {
    let mut real = Real::new();
    for phase in 0..2 {
        let atoms = if phase == 0 { vec![Tree::name("EXTRA.ONE"), Tree::I(1)] } else { vec![Tree::ins("EXTRA.ONE"), Tree::name("EXTRA.TWO"), Tree::I(1)] };
        if phase == 1 {
            real.iset.add("EXTRA.ONE".to_string(), pushr::push::instructions::Instruction::new(|_s: &mut pushr::push::state::PushState, _c: &pushr::push::instructions::InstructionCache| {}));
            real.icache = real.iset.cache();
        }
        for t in trees_up_to(3, &atoms) {
            let id = match ctx.take() {
                Some(id) => id,
                None => continue,
            };
            ctx.transitions += 1;
            ctx.states += 1;
            let mut problems: Vec<(String, String)> = vec![];
            let mut okey = String::new();
            match print_routes(&mut real, &t) {
                Err(p) => problems.push((panic_class(&p), p)),
                Ok(routes) => {
                    for (route, text, original) in routes {
                        okey = text.clone();
                        match parse_real(&real, &M::default(), &text) {
                            Outcome::Panic(p) => problems.push((panic_class(&p), format!("{}: parsing {:?}: {}", route, text, p))),
                            Outcome::Ok(g) => {
                                if g.e != original {
                                    problems.push((format!("roundtrip:{}", route), format!("phase {} (EXTRA.ONE {}registered): printed {:?}; parsed back as [{}], original [{}]", phase, if phase == 0 { "not " } else { "" }, text, g.e.iter().map(|x| x.key()).collect::<Vec<_>>().join(" "), original.iter().map(|x| x.key()).collect::<Vec<_>>().join(" "))));
                                }
                            }
                        }
                    }
                }
            }
            let verdict = match problems.first() {
                None => Verdict::Pass,
                Some((class, detail)) => Verdict::fail("print/parse", class, detail.clone()),
            };
            ctx.nontrivial_mark(&format!("{}|{}", phase, okey));
            ctx.record(id, &format!("{}|{}", phase, okey), verdict, || format!("phase {} tree {}", phase, t.key()));
        }
    }
}

pub fn run(ctx: &mut Ctx) {
    match (ctx.prop.as_str(), ctx.family.as_str()) {
        ("C03", "tokens") => tokens(ctx),
        ("C03", "chars") => chars(ctx),
        ("C03", "ladder") => ladder(ctx),
        ("C03", "sets") => sets(ctx),
        ("C11", "exact") => roundtrip(ctx, false),
        ("C11", "floats") => roundtrip(ctx, true),
        ("C11", "sets") => roundtrip_sets(ctx),
        (p, f) => panic!("unknown family {} {}", p, f),
    }
}
