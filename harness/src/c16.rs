//! C16 — the generic stack container behaves like a plain sequence.
//! Explicit-state BFS to fixpoint over every reachable `PushStack<T>` of bounded
//! size, every public operation with every parameter in [0, len+2], compared
//! step by step with a `Vec<T>` whose index 0 is the top.

use crate::core::{guarded, panic_class, Ctx, Verdict};
use crate::model::{item_of, tree_of, Tree};
use pushr::push::item::Item;
use pushr::push::stack::{PushPrint, PushStack};
use std::collections::{HashMap, VecDeque};

pub trait Elem: Clone + std::fmt::Display + std::fmt::Debug + PartialEq + PushPrint {
    fn k(&self) -> String;
    /// what `last_eq` is documented to compare with
    fn last_eq_ref(a: &Self, b: &Self) -> bool;
    /// the element as the stack prints it (PushPrint), rendered by the harness's own code
    fn pstring_ref(&self) -> String;
    /// the element's Display text (what `equal_at` compares), rendered by the harness's own code
    fn display_ref(&self) -> String;
}
impl Elem for i32 {
    fn k(&self) -> String {
        self.to_string()
    }
    fn last_eq_ref(a: &i32, b: &i32) -> bool {
        a == b
    }
    fn pstring_ref(&self) -> String {
        format!("{}", self)
    }
    fn display_ref(&self) -> String {
        format!("{}", self)
    }
}
impl Elem for pushr::push::vector::IntVector {
    fn k(&self) -> String {
        format!("{:?}", self.values)
    }
    fn last_eq_ref(a: &Self, b: &Self) -> bool {
        a.values == b.values
    }
    fn pstring_ref(&self) -> String {
        crate::refmodel::display(&Tree::IV(self.values.clone()))
    }
    fn display_ref(&self) -> String {
        crate::refmodel::display(&Tree::IV(self.values.clone()))
    }
}
impl Elem for pushr::push::vector::BoolVector {
    fn k(&self) -> String {
        format!("{:?}", self.values)
    }
    fn last_eq_ref(a: &Self, b: &Self) -> bool {
        a.values == b.values
    }
    fn pstring_ref(&self) -> String {
        crate::refmodel::display(&Tree::BV(self.values.clone()))
    }
    fn display_ref(&self) -> String {
        crate::refmodel::display(&Tree::BV(self.values.clone()))
    }
}
impl Elem for pushr::push::vector::FloatVector {
    fn k(&self) -> String {
        format!("{:?}", self.values.iter().map(|x| x.to_bits()).collect::<Vec<_>>())
    }
    fn last_eq_ref(a: &Self, b: &Self) -> bool {
        a.values == b.values
    }
    fn pstring_ref(&self) -> String {
        crate::refmodel::display(&Tree::FV(self.values.clone()))
    }
    fn display_ref(&self) -> String {
        crate::refmodel::display(&Tree::FV(self.values.clone()))
    }
}
impl Elem for f32 {
    fn k(&self) -> String {
        format!("{:08x}", self.to_bits())
    }
    fn last_eq_ref(a: &f32, b: &f32) -> bool {
        a == b
    }
    fn pstring_ref(&self) -> String {
        format!("{:.1}", self)
    }
    fn display_ref(&self) -> String {
        format!("{}", self)
    }
}
fn kind(t: &Tree) -> u8 {
    match t {
        Tree::L(_) => 0,
        Tree::Ins(_) => 1,
        Tree::Name(_) => 2,
        Tree::B(_) => 3,
        Tree::I(_) => 4,
        Tree::F(_) => 5,
        Tree::Idx(..) => 6,
        Tree::BV(_) => 7,
        Tree::IV(_) => 8,
        Tree::FV(_) => 9,
        Tree::Graph(_) => 10,
    }
}
impl Elem for Item {
    fn k(&self) -> String {
        tree_of(self).key()
    }
    // documented as "shallow for Items": same kind of item
    fn last_eq_ref(a: &Item, b: &Item) -> bool {
        kind(&tree_of(a)) == kind(&tree_of(b))
    }
    fn pstring_ref(&self) -> String {
        crate::refmodel::display(&tree_of(self))
    }
    fn display_ref(&self) -> String {
        crate::refmodel::display(&tree_of(self))
    }
}

#[derive(Clone, Debug)]
enum Op {
    Push(usize),
    Pop,
    PushFront(usize),
    PopFront,
    PushVec(Vec<usize>),
    PopVec(usize),
    CopyVec(usize),
    Get(usize),
    GetMutWrite(usize, usize),
    Copy(usize),
    Replace(usize, usize),
    Remove(usize),
    Yank(usize),
    Shove(usize),
    Reverse,
    Flush,
    LastEq(usize),
    EqualAt(usize, usize),
    BottomMutWrite(usize),
    Size,
    ToString,
    FromVec,
}

fn ops(len: usize, nvals: usize, max: usize) -> Vec<Op> {
    let mut v = vec![Op::Pop, Op::PopFront, Op::Reverse, Op::Flush, Op::Size, Op::ToString, Op::FromVec];
    for a in 0..nvals {
        if len < max {
            v.push(Op::Push(a));
            v.push(Op::PushFront(a));
        }
        v.push(Op::LastEq(a));
        v.push(Op::BottomMutWrite(a));
    }
    v.push(Op::PushVec(vec![]));
    if len + 1 <= max {
        v.push(Op::PushVec(vec![0]));
    }
    if len + 2 <= max {
        v.push(Op::PushVec(vec![0, 1 % nvals]));
        v.push(Op::PushVec(vec![1 % nvals, 0]));
    }
    // positions and counts far outside any stack: the type's boundaries and the 32-bit boundaries inside a 64-bit index
    for i in [usize::MAX, usize::MAX - 1, usize::MAX / 2, (isize::MAX as usize) / 4 + 1, 1usize << 31, (1usize << 31) + 1, u32::MAX as usize] {
        v.push(Op::PopVec(i));
        v.push(Op::CopyVec(i));
        v.push(Op::Get(i));
        v.push(Op::Copy(i));
        v.push(Op::Remove(i));
        v.push(Op::Yank(i));
        v.push(Op::Shove(i));
        v.push(Op::Replace(i, 0));
        v.push(Op::EqualAt(i, 0));
    }
    for i in 0..=len + 2 {
        v.push(Op::PopVec(i));
        v.push(Op::CopyVec(i));
        v.push(Op::Get(i));
        v.push(Op::Copy(i));
        v.push(Op::Remove(i));
        v.push(Op::Yank(i));
        v.push(Op::Shove(i));
        for a in 0..nvals {
            v.push(Op::GetMutWrite(i, a));
            v.push(Op::Replace(i, a));
            v.push(Op::EqualAt(i, a));
        }
    }
    v
}

fn ks<T: Elem>(v: &[T]) -> String {
    v.iter().map(|x| x.k()).collect::<Vec<_>>().join(" ")
}

/// applies `op` to the real container; returns the textual return value
fn apply_real<T: Elem>(s: &mut PushStack<T>, op: &Op, vals: &[T]) -> String {
    match op {
        Op::Push(a) => {
            s.push(vals[*a].clone());
            "()".into()
        }
        Op::Pop => format!("{:?}", s.pop().map(|x| x.k())),
        Op::PushFront(a) => {
            s.push_front(vals[*a].clone());
            "()".into()
        }
        Op::PopFront => format!("{:?}", s.pop_front().map(|x| x.k())),
        Op::PushVec(v) => {
            s.push_vec(v.iter().map(|a| vals[*a].clone()).collect());
            "()".into()
        }
        Op::PopVec(n) => format!("{:?}", s.pop_vec(*n).map(|v| ks(&v))),
        Op::CopyVec(n) => format!("{:?}", s.copy_vec(*n).map(|v| ks(&v))),
        Op::Get(i) => format!("{:?}", s.get(*i).map(|x| x.k())),
        Op::GetMutWrite(i, a) => match s.get_mut(*i) {
            Some(r) => {
                let old = r.k();
                *r = vals[*a].clone();
                format!("Some({})", old)
            }
            None => "None".into(),
        },
        Op::Copy(i) => format!("{:?}", s.copy(*i).map(|x| x.k())),
        // only Ok / Err is compared: the property says "reported as absent", not which offset
        Op::Replace(i, a) => match s.replace(*i, vals[*a].clone()) {
            Ok(()) => "Ok(())".into(),
            Err(_) => "Err(_)".into(),
        },
        Op::Remove(i) => {
            s.remove(*i);
            "()".into()
        }
        Op::Yank(i) => {
            s.yank(*i);
            "()".into()
        }
        Op::Shove(i) => {
            s.shove(*i);
            "()".into()
        }
        Op::Reverse => {
            s.reverse();
            "()".into()
        }
        Op::Flush => {
            s.flush();
            "()".into()
        }
        Op::LastEq(a) => format!("{}", s.last_eq(&vals[*a])),
        Op::EqualAt(i, a) => format!("{:?}", s.equal_at(*i, &vals[*a])),
        Op::BottomMutWrite(a) => match s.bottom_mut() {
            Some(r) => {
                let old = r.k();
                *r = vals[*a].clone();
                format!("Some({})", old)
            }
            None => "None".into(),
        },
        Op::Size => format!("{}", s.size()),
        Op::ToString => s.to_string(),
        Op::FromVec => {
            // rebuild through the documented constructor: last element becomes the top
            let n = s.size();
            let v = s.copy_vec(n).unwrap_or_default();
            *s = PushStack::from_vec(v);
            "()".into()
        }
    }
}

/// the plain-sequence reference: `r[0]` is the top
fn apply_ref<T: Elem>(r: &mut Vec<T>, op: &Op, vals: &[T]) -> String {
    let len = r.len();
    match op {
        Op::Push(a) => {
            r.insert(0, vals[*a].clone());
            "()".into()
        }
        Op::Pop => {
            if len == 0 {
                "None".into()
            } else {
                format!("{:?}", Some(r.remove(0).k()))
            }
        }
        Op::PushFront(a) => {
            r.push(vals[*a].clone());
            "()".into()
        }
        Op::PopFront => format!("{:?}", r.pop().map(|x| x.k())),
        Op::PushVec(v) => {
            for a in v {
                r.insert(0, vals[*a].clone());
            }
            "()".into()
        }
        Op::PopVec(n) => {
            if *n > len {
                "None".into()
            } else {
                let mut taken: Vec<T> = r.drain(0..*n).collect();
                taken.reverse(); // last element of the result is the former top
                format!("{:?}", Some(ks(&taken)))
            }
        }
        Op::CopyVec(n) => {
            if *n > len {
                "None".into()
            } else {
                let mut taken: Vec<T> = r[0..*n].to_vec();
                taken.reverse();
                format!("{:?}", Some(ks(&taken)))
            }
        }
        Op::Get(i) | Op::Copy(i) => format!("{:?}", r.get(*i).map(|x| x.k())),
        Op::GetMutWrite(i, a) => {
            if *i < len {
                let old = r[*i].k();
                r[*i] = vals[*a].clone();
                format!("Some({})", old)
            } else {
                "None".into()
            }
        }
        Op::Replace(i, a) => {
            if *i < len {
                r[*i] = vals[*a].clone();
                "Ok(())".into()
            } else {
                "Err(_)".into()
            }
        }
        Op::Remove(i) => {
            if *i < len {
                r.remove(*i);
            }
            "()".into()
        }
        Op::Yank(i) => {
            if *i < len {
                let x = r.remove(*i);
                r.insert(0, x);
            }
            "()".into()
        }
        Op::Shove(i) => {
            if *i < len {
                let x = r.remove(0);
                r.insert(*i, x);
            }
            "()".into()
        }
        Op::Reverse => {
            r.reverse();
            "()".into()
        }
        Op::Flush => {
            r.clear();
            "()".into()
        }
        Op::LastEq(a) => format!("{}", len > 0 && T::last_eq_ref(&r[0], &vals[*a])),
        Op::EqualAt(i, a) => {
            if *i < len {
                format!("Some({})", r[*i].display_ref() == vals[*a].display_ref())
            } else {
                "None".into()
            }
        }
        Op::BottomMutWrite(a) => {
            if len > 0 {
                let old = r[len - 1].k();
                r[len - 1] = vals[*a].clone();
                format!("Some({})", old)
            } else {
                "None".into()
            }
        }
        Op::Size => format!("{}", len),
        Op::ToString => r.iter().map(|x| x.pstring_ref()).collect::<Vec<_>>().join(" "),
        Op::FromVec => "()".into(),
    }
}

fn contents<T: Elem>(s: &PushStack<T>) -> Vec<T> {
    // observed through the bulk accessor *and* cross-checked with get() by the read ops
    let n = s.size();
    let mut v = s.copy_vec(n).unwrap_or_default();
    v.reverse();
    v
}

fn bfs<T: Elem>(ctx: &mut Ctx, label: &str, vals: Vec<T>, max: usize) {
    // a state is its contents (the container has no hidden fields: `elements` only)
    let mut seen: HashMap<String, Vec<T>> = HashMap::new();
    let mut queue: VecDeque<(Vec<T>, usize)> = VecDeque::new();
    seen.insert(String::new(), vec![]);
    queue.push_back((vec![], 0));
    let site = format!("PushStack<{}>", label);
    while let Some((state, depth)) = queue.pop_front() {
        ctx.states += 1;
        ctx.max_depth = ctx.max_depth.max(depth as u64);
        for op in ops(state.len(), vals.len(), max) {
            let (id, rec) = ctx.take_exec();
            ctx.transitions += 1;
            // real: rebuilt from the state by the documented constructor; the backing vector is snug for the
            // even states and keeps a large allocation for the odd ones (as a drained stack does)
            let mut backing: Vec<T> = Vec::with_capacity(state.len() + if ctx.states % 2 == 0 { 0 } else { 600 });
            backing.extend(state.iter().cloned());
            backing.reverse();
            let mut refv = state.clone();
            let rref = apply_ref(&mut refv, &op, &vals);
            let got = guarded(|| {
                let mut real = PushStack::from_vec(backing);
                let r = apply_real(&mut real, &op, &vals);
                (r, contents(&real))
            });
            let descr = || format!("{} state=[{}] (top first) op={:?}", site, ks(&state), op);
            match got {
                Err(p) => {
                    let class = panic_class(&p);
                    ctx.record_if(rec, id, &class, Verdict::fail(&site, &class, format!("expected return {} contents [{}]; {}", rref, ks(&refv), p)), descr);
                    continue;
                }
                Ok((rreal, creal)) => {
                    let okey = format!("{} -> {} [{}]", format!("{:?}", op), rreal, ks(&creal));
                    let v = if rreal != rref {
                        Verdict::fail(&site, &format!("return:{}", opname(&op)), format!("returned {} but the plain sequence returns {}", rreal, rref))
                    } else if ks(&creal) != ks(&refv) {
                        Verdict::fail(&site, &format!("contents:{}", opname(&op)), format!("contents [{}] but the plain sequence holds [{}]", ks(&creal), ks(&refv)))
                    } else {
                        Verdict::Pass
                    };
                    if refv.len() != state.len() || ks(&refv) != ks(&state) {
                        ctx.nontrivial_mark(&okey);
                    }
                    ctx.record_if(rec, id, &okey, v, descr);
                    // successor = what the *reference* says (the real one was just shown equal, or reported)
                    if refv.len() <= max {
                        let k = ks(&refv);
                        if !seen.contains_key(&k) {
                            seen.insert(k, refv.clone());
                            queue.push_back((refv, depth + 1));
                        }
                    }
                }
            }
        }
    }
    ctx.fixpoint = Some(true);
}

/// The same exploration on LIVE objects: a state is the real container itself (cloned for every successor,
/// never rebuilt from its contents), identified by its derived Debug text -- every field, also one that is
/// not part of the visible contents (a cached length, a cursor, a dirty flag). Whatever an operation leaves
/// behind in such a field is still there when the next operation runs.
fn bfs_live<T: Elem>(ctx: &mut Ctx, label: &str, vals: Vec<T>, max: usize, depth_max: usize, state_cap: usize) {
    let mut seen: std::collections::HashSet<String> = std::collections::HashSet::new();
    let mut queue: VecDeque<(PushStack<T>, Vec<T>, Vec<String>)> = VecDeque::new();
    let init: PushStack<T> = PushStack::new();
    seen.insert(format!("{:?}", init));
    queue.push_back((init, vec![], vec![]));
    let site = format!("PushStack<{}> (live)", label);
    let mut capped = false;
    while let Some((live, state, hist)) = queue.pop_front() {
        ctx.states += 1;
        ctx.max_depth = ctx.max_depth.max(hist.len() as u64);
        if hist.len() >= depth_max {
            continue;
        }
        for op in ops(state.len(), vals.len(), max) {
            if matches!(op, Op::FromVec) {
                continue; // rebuilding through the constructor is what this family avoids
            }
            let (id, rec) = ctx.take_exec();
            ctx.transitions += 1;
            let mut refv = state.clone();
            let rref = apply_ref(&mut refv, &op, &vals);
            let start = live.clone();
            let (op2, vals2) = (op_clone(&op), vals_clone(&vals));
            let got = guarded(move || {
                let mut real = start;
                let r = apply_real(&mut real, &op2, &vals2);
                let c = contents(&real);
                (r, c, real)
            });
            let descr = || format!("{} history=[{}] contents=[{}] (top first) op={:?}", site, hist.join(", "), ks(&state), op);
            match got {
                Err(p) => {
                    let class = panic_class(&p);
                    ctx.record_if(rec, id, &class, Verdict::fail(&site, &class, format!("expected return {} contents [{}]; {}", rref, ks(&refv), p)), descr);
                }
                Ok((rreal, creal, real)) => {
                    let okey = format!("{:?} -> {} [{}]", op, rreal, ks(&creal));
                    let v = if rreal != rref {
                        Verdict::fail(&site, &format!("return:{}", opname(&op)), format!("returned {} but the plain sequence returns {}", rreal, rref))
                    } else if ks(&creal) != ks(&refv) {
                        Verdict::fail(&site, &format!("contents:{}", opname(&op)), format!("contents [{}] but the plain sequence holds [{}]", ks(&creal), ks(&refv)))
                    } else {
                        Verdict::Pass
                    };
                    let failed = !matches!(v, Verdict::Pass);
                    ctx.nontrivial_mark(&okey);
                    ctx.record_if(rec, id, &okey, v, descr);
                    if failed || refv.len() > max {
                        continue;
                    }
                    let k = format!("{:?}", real);
                    if !seen.contains(&k) {
                        if seen.len() >= state_cap {
                            capped = true;
                            continue;
                        }
                        seen.insert(k);
                        let mut h = hist.clone();
                        h.push(format!("{:?}", op));
                        queue.push_back((real, refv, h));
                    }
                }
            }
        }
    }
    if capped {
        ctx.caps.push(format!("{}: state cap {} reached", site, state_cap));
    }
    ctx.caps.push(format!("{}: depth bound {}", site, depth_max));
    ctx.fixpoint = Some(false);
}

fn op_clone(op: &Op) -> Op {
    op.clone()
}
fn vals_clone<T: Clone>(v: &[T]) -> Vec<T> {
    v.to_vec()
}

fn opname(op: &Op) -> &'static str {
    match op {
        Op::Push(_) => "push",
        Op::Pop => "pop",
        Op::PushFront(_) => "push_front",
        Op::PopFront => "pop_front",
        Op::PushVec(_) => "push_vec",
        Op::PopVec(_) => "pop_vec",
        Op::CopyVec(_) => "copy_vec",
        Op::Get(_) => "get",
        Op::GetMutWrite(..) => "get_mut",
        Op::Copy(_) => "copy",
        Op::Replace(..) => "replace",
        Op::Remove(_) => "remove",
        Op::Yank(_) => "yank",
        Op::Shove(_) => "shove",
        Op::Reverse => "reverse",
        Op::Flush => "flush",
        Op::LastEq(_) => "last_eq",
        Op::EqualAt(..) => "equal_at",
        Op::BottomMutWrite(_) => "bottom_mut",
        Op::Size => "size",
        Op::ToString => "to_string",
        Op::FromVec => "from_vec",
    }
}

pub fn run(ctx: &mut Ctx) {
    match ctx.family.as_str() {
        "int" => {
            let (vals, max) = if ctx.tier_thorough { (vec![1, 2], 13) } else { (vec![1, 2], 10) };
            bfs::<i32>(ctx, "i32", vals, max);
        }
        "vectors" => {
            // stacks of vectors: an empty vector, short ones, and two long float vectors that differ in the middle only
            use pushr::push::vector::{BoolVector, FloatVector, IntVector};
            bfs::<IntVector>(ctx, "IntVector", vec![IntVector::new(vec![]), IntVector::new(vec![1]), IntVector::new(vec![1, 2])], 3);
            bfs::<BoolVector>(ctx, "BoolVector", vec![BoolVector::new(vec![]), BoolVector::new(vec![true, false])], 3);
            let long = |mid: f32| FloatVector::new((0..40).map(|k| if k == 20 { mid } else { k as f32 + 0.5 }).collect());
            bfs::<FloatVector>(ctx, "FloatVector", vec![FloatVector::new(vec![]), FloatVector::new(vec![1.5]), long(1.0), long(2.0)], 3);
        }
        "live" => {
            let (max, depth) = if ctx.tier_thorough { (5, 9) } else { (4, 7) };
            let cap = if ctx.tier_thorough { 500_000 } else { 50_000 };
            bfs_live::<i32>(ctx, "i32", vec![1, 2], max, depth, cap);
            bfs_live::<Item>(ctx, "Item", vec![item_of(&Tree::I(1)), item_of(&Tree::L(vec![Tree::I(1)]))], 3, if ctx.tier_thorough { 7 } else { 5 }, cap);
        }
        "float" => {
            // values that print alike to one decimal / differ by one ulp; NaN (never equal to itself by ==, equal by text)
            let vals: Vec<f32> = vec![2.5, 2.54, f32::from_bits(2.5f32.to_bits() + 1), f32::NAN];
            let (vals, max) = if ctx.tier_thorough { (vals, 5) } else { (vals[..3].to_vec(), 4) };
            bfs::<f32>(ctx, "f32", vals, max);
        }
        "item" => {
            let vals: Vec<Item> = vec![
                item_of(&Tree::I(1)),
                item_of(&Tree::L(vec![Tree::I(1)])),
                item_of(&Tree::L(vec![])),
                item_of(&Tree::I(2)),
            ];
            let (vals, max) = if ctx.tier_thorough { (vals, 6) } else { (vals[..3].to_vec(), 5) };
            bfs::<Item>(ctx, "Item", vals, max);
        }
        f => panic!("unknown family {}", f),
    }
}
