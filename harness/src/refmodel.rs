//! Reference semantics of one interpreter step, written from the documentation
//! (doc comments in src/push/*.rs, README, property statements; DESIGN.md App. A).
//! Shares no code with pushr. `spec` gives the documented outcome(s) of executing
//! instruction `name` in state `m0` (EXEC already without the instruction);
//! `judge` compares an observed outcome with it and with the listed as-is
//! variants of known findings.

use crate::core::{panic_class, Outcome, Verdict};
use crate::foot::{foot, stack_type, Foot};
use crate::model::{feq, Comp, Msg, Tree, G, M};
use crate::treeops::*;

pub enum Exp {
    /// not modelled (harness instruction, unknown name)
    Unknown,
    /// only "returns normally and stays inside its footprint" is required (RNG / host)
    Any,
    /// missing operand or failed guard: C10 rule
    Unfired,
    /// any of these states
    OneOf(Vec<M>),
    /// predicate; the vector holds representative expected states for diagnostics
    Check(Vec<M>, Box<dyn Fn(&M) -> Result<(), String>>),
    /// documented outcome(s) *or* the unfired rule (documentation ambiguous about applying)
    OneOfOrUnfired(Vec<M>),
}

fn one(m: M) -> Exp {
    Exp::OneOf(vec![m])
}

pub const NEXT_NODE_ID: usize = 1000;
thread_local! {
    static NEXT_ID: std::cell::Cell<usize> = std::cell::Cell::new(NEXT_NODE_ID);
}
/// the id the next GRAPH.NODE*ADD will hand out (the harness sets the real counter to the same value)
pub fn next_node_id() -> usize {
    NEXT_ID.with(|c| c.get())
}
pub fn set_next_node_id(v: usize) {
    NEXT_ID.with(|c| c.set(v))
}

pub fn clamp(idx: i32, n: usize) -> usize {
    let hi = n as i64 - 1;
    std::cmp::max(std::cmp::min(hi, idx as i64), 0) as usize
}

macro_rules! on_stack {
    ($m:expr, $c:expr, |$s:ident| $body:expr) => {
        match $c {
            Comp::B => {
                let $s = &mut $m.b;
                $body
            }
            Comp::I => {
                let $s = &mut $m.i;
                $body
            }
            Comp::F => {
                let $s = &mut $m.f;
                $body
            }
            Comp::N => {
                let $s = &mut $m.n;
                $body
            }
            Comp::C => {
                let $s = &mut $m.c;
                $body
            }
            Comp::E => {
                let $s = &mut $m.e;
                $body
            }
            Comp::BV => {
                let $s = &mut $m.bv;
                $body
            }
            Comp::IV => {
                let $s = &mut $m.iv;
                $body
            }
            Comp::FV => {
                let $s = &mut $m.fv;
                $body
            }
            _ => unreachable!("not a typed stack"),
        }
    };
}

fn g_dup<T: Clone>(s: &mut Vec<T>) {
    if !s.is_empty() {
        let x = s[0].clone();
        s.insert(0, x);
    }
}
fn g_pop<T>(s: &mut Vec<T>) {
    if !s.is_empty() {
        s.remove(0);
    }
}
fn g_swap<T>(s: &mut Vec<T>) {
    if s.len() >= 2 {
        s.swap(0, 1);
    }
}
fn g_rot<T>(s: &mut Vec<T>) {
    if s.len() >= 3 {
        let x = s.remove(2);
        s.insert(0, x);
    }
}
fn g_yank<T>(s: &mut Vec<T>, idx: i32) {
    if !s.is_empty() {
        let c = clamp(idx, s.len());
        let x = s.remove(c);
        s.insert(0, x);
    }
}
fn g_yankdup<T: Clone>(s: &mut Vec<T>, idx: i32) {
    if !s.is_empty() {
        let c = clamp(idx, s.len());
        let x = s[c].clone();
        s.insert(0, x);
    }
}
fn g_shove<T>(s: &mut Vec<T>, idx: i32) {
    if !s.is_empty() {
        let c = clamp(idx, s.len());
        let x = s.remove(0);
        s.insert(c, x);
    }
}

/// the literal that T.DEFINE binds
fn literal_of(m: &M, t: Comp) -> Tree {
    match t {
        Comp::B => Tree::B(m.b[0]),
        Comp::I => Tree::I(m.i[0]),
        Comp::F => Tree::F(m.f[0]),
        Comp::C => m.c[0].clone(),
        Comp::E => m.e[0].clone(),
        Comp::BV => Tree::BV(m.bv[0].clone()),
        Comp::IV => Tree::IV(m.iv[0].clone()),
        Comp::FV => Tree::FV(m.fv[0].clone()),
        _ => unreachable!(),
    }
}

fn floored_mod_i(a: i32, b: i32) -> i32 {
    let r = (a as i64) % (b as i64);
    let r = if r != 0 && ((r < 0) != (b < 0)) { r + b as i64 } else { r };
    r as i32
}
fn floored_mod_f(a: f32, b: f32) -> f32 {
    let r = a % b;
    if r != 0.0 && !r.is_nan() && ((r < 0.0) != (b < 0.0)) {
        r + b
    } else {
        r
    }
}

/// expected state equals `base` except that item `pos` of component `comp` may be
/// any value (of the right type) satisfying `pred`
fn wild(base: M, comp: Comp, pos: usize, pred: Box<dyn Fn(&M) -> Result<(), String>>) -> Exp {
    let b2 = base.clone();
    Exp::Check(
        vec![base],
        Box::new(move |got: &M| {
            let mut patched = b2.clone();
            match comp {
                Comp::I => {
                    if got.i.len() != patched.i.len() {
                        return Err(format!("INTEGER depth {} expected {}", got.i.len(), patched.i.len()));
                    }
                    patched.i[pos] = got.i[pos];
                }
                Comp::F => {
                    if got.f.len() != patched.f.len() {
                        return Err(format!("FLOAT depth {} expected {}", got.f.len(), patched.f.len()));
                    }
                    patched.f[pos] = got.f[pos];
                }
                Comp::N => {
                    if got.n.len() != patched.n.len() {
                        return Err(format!("NAME depth {} expected {}", got.n.len(), patched.n.len()));
                    }
                    patched.n[pos] = got.n[pos].clone();
                }
                Comp::C => {
                    if got.c.len() != patched.c.len() {
                        return Err(format!("CODE depth {} expected {}", got.c.len(), patched.c.len()));
                    }
                    patched.c[pos] = got.c[pos].clone();
                }
                Comp::IV => {
                    if got.iv.len() != patched.iv.len() {
                        return Err(format!("INTVECTOR depth {} expected {}", got.iv.len(), patched.iv.len()));
                    }
                    patched.iv[pos] = got.iv[pos].clone();
                }
                Comp::FV => {
                    if got.fv.len() != patched.fv.len() {
                        return Err(format!("FLOATVECTOR depth {} expected {}", got.fv.len(), patched.fv.len()));
                    }
                    patched.fv[pos] = got.fv[pos].clone();
                }
                Comp::BV => {
                    if got.bv.len() != patched.bv.len() {
                        return Err(format!("BOOLVECTOR depth {} expected {}", got.bv.len(), patched.bv.len()));
                    }
                    patched.bv[pos] = got.bv[pos].clone();
                }
                _ => unreachable!(),
            }
            let d = patched.diff(got);
            if !d.is_empty() {
                return Err(format!("differs from the documented outcome in {:?}", d));
            }
            pred(got)
        }),
    )
}
fn anyval() -> Box<dyn Fn(&M) -> Result<(), String>> {
    Box::new(|_| Ok(()))
}

fn set_eq(a: &[i32], b: &[i32]) -> bool {
    let mut x = a.to_vec();
    let mut y = b.to_vec();
    x.sort();
    x.dedup();
    y.sort();
    y.dedup();
    x == y
}

/// pushr's Display of an item, re-implemented for CODE.PRINT / printing checks
pub fn display(t: &Tree) -> String {
    match t {
        Tree::B(b) => (if *b { "TRUE" } else { "FALSE" }).to_string(),
        Tree::I(i) => i.to_string(),
        Tree::F(f) => format!("{:.3}", f),
        Tree::Name(n) | Tree::Ins(n) => n.clone(),
        Tree::BV(v) => format!("[{}]", v.iter().map(|b| if *b { "TRUE" } else { "FALSE" }).collect::<Vec<_>>().join(",")),
        Tree::IV(v) => format!("[{}]", v.iter().map(|b| b.to_string()).collect::<Vec<_>>().join(",")),
        Tree::FV(v) => format!("[{}]", v.iter().map(|b| format!("{:.3}", b)).collect::<Vec<_>>().join(",")),
        Tree::Idx(c, d) => format!("{}/{}", c, d),
        Tree::Graph(_) => "<graph>".to_string(),
        Tree::L(items) => {
            let inner = items.iter().map(display).collect::<Vec<_>>().join(" ");
            format!("( {} )", inner)
        }
    }
}
pub fn display_stack(items: &[Tree]) -> String {
    items.iter().map(display).collect::<Vec<_>>().join(" ")
}

fn missing(ft: &Foot, m: &M) -> bool {
    ft.ops.iter().any(|(c, need)| m.depth(*c) < *need)
}

// ---------------------------------------------------------------------------
// graph model helpers

fn preds(g: &G, id: usize, states: &[i32]) -> Vec<i32> {
    let mut v = vec![];
    if let Some(inc) = g.edges.get(&id) {
        for (o, _) in inc {
            if let Some(st) = g.nodes.get(o) {
                if states.is_empty() || states.contains(st) {
                    v.push(*o as i32);
                }
            }
        }
    }
    v
}
fn succs(g: &G, id: usize, states: &[i32]) -> Vec<i32> {
    let mut v = vec![];
    for (dest, inc) in &g.edges {
        if inc.iter().any(|(o, _)| *o == id) {
            if let Some(st) = g.nodes.get(dest) {
                if states.is_empty() || states.contains(st) {
                    v.push(*dest as i32);
                }
            }
        }
    }
    v
}
fn filter_nodes(g: &G, states: &[i32]) -> Vec<i32> {
    g.nodes.iter().filter(|(_, st)| states.is_empty() || states.contains(st)).map(|(k, _)| *k as i32).collect()
}
fn weight(g: &G, o: usize, d: usize) -> Option<f32> {
    g.edges.get(&d).and_then(|inc| inc.iter().find(|(x, _)| *x == o).map(|(_, w)| *w))
}
/// the set view the property talks about: nodes with states, edges with weights
pub fn graph_sets_equal(a: &G, b: &G) -> bool {
    if a.nodes != b.nodes {
        return false;
    }
    let edges = |g: &G| -> Vec<(usize, usize, u32)> {
        let mut v = vec![];
        for (d, inc) in &g.edges {
            for (o, w) in inc {
                v.push((*o, *d, w.to_bits()));
            }
        }
        v.sort();
        v
    };
    edges(a) == edges(b)
}
fn uid(i: i32) -> Option<usize> {
    if i >= 0 {
        Some(i as usize)
    } else {
        None
    }
}

fn set_iv_check(base: M, expected_set: Vec<i32>) -> Exp {
    // base.iv[0] holds one representative ordering; any ordering (HashMap iteration) is accepted
    let b2 = base.clone();
    Exp::Check(
        vec![base],
        Box::new(move |got: &M| {
            if got.iv.len() != b2.iv.len() {
                return Err(format!("INTVECTOR depth {} expected {}", got.iv.len(), b2.iv.len()));
            }
            if !set_eq(&got.iv[0], &expected_set) {
                return Err(format!("id set {:?} expected {:?}", got.iv[0], expected_set));
            }
            let mut patched = b2.clone();
            patched.iv[0] = got.iv[0].clone();
            let d = patched.diff(got);
            if d.is_empty() {
                Ok(())
            } else {
                Err(format!("differs from the documented outcome in {:?}", d))
            }
        }),
    )
}

// ---------------------------------------------------------------------------
// topology reference: exact integer geometry

pub fn edge_len(ntotal: usize, ndim: usize) -> usize {
    // least e with e^ndim >= ntotal
    let mut e = 1usize;
    loop {
        let mut p: u128 = 1;
        for _ in 0..ndim {
            p = p.saturating_mul(e as u128);
        }
        if p >= ntotal as u128 {
            return e;
        }
        e += 1;
    }
}
pub fn coords(mut index: usize, e: usize, ndim: usize) -> Vec<usize> {
    let mut v = Vec::with_capacity(ndim);
    for _ in 0..ndim {
        v.push(index % e);
        index /= e;
    }
    v
}
/// Indices whose distance from the centre differs from the radius by less than one unit in the last
/// place of the (single-precision) radius without being equal to it: whether such a point lies "within
/// the radius" depends on how the single-precision distance is rounded (pushr's own tests call
/// find_neighbors with f32::sqrt(2.0), which is *below* the real square root of two, and expect the
/// diagonal neighbours), so membership of these points is left open; every other point is decided exactly.
pub fn neighbors_ambiguous(ntotal: usize, ndim: usize, index: usize, radius: f32) -> Vec<i32> {
    if !(radius >= 0.0) || !radius.is_finite() || ndim < 1 || ntotal < 1 || index >= ntotal {
        return vec![];
    }
    let e = edge_len(ntotal, ndim);
    let c = coords(index, e, ndim);
    let r = radius as f64;
    let ulp = (f32::from_bits(radius.to_bits() + 1) - radius) as f64;
    let mut out = vec![];
    for i in 0..ntotal {
        let ci = coords(i, e, ndim);
        let d2: u64 = c.iter().zip(&ci).map(|(a, b)| {
            let d = *a as i64 - *b as i64;
            (d * d) as u64
        }).sum();
        let d = (d2 as f64).sqrt();
        let exact = {
            let root = d.round();
            root * root == d2 as f64 && root == r
        };
        if !exact && (d - r).abs() < ulp {
            out.push(i as i32);
        }
    }
    out
}

/// squared distance; the radius test is done as d2 <= r*r in f64 (points within rounding distance of the
/// radius: see `neighbors_ambiguous`)
pub fn neighbors_ref(ntotal: usize, ndim: usize, index: usize, radius: f32) -> Option<Vec<i32>> {
    if !(radius >= 0.0) || ndim < 1 || ntotal < 1 || index >= ntotal {
        return None;
    }
    let e = edge_len(ntotal, ndim);
    let c = coords(index, e, ndim);
    let r2 = (radius as f64) * (radius as f64);
    let mut out = vec![];
    for i in 0..ntotal {
        let ci = coords(i, e, ndim);
        let d2: u64 = c.iter().zip(&ci).map(|(a, b)| {
            let d = *a as i64 - *b as i64;
            (d * d) as u64
        }).sum();
        if (d2 as f64) <= r2 {
            out.push(i as i32);
        }
    }
    Some(out)
}

// ---------------------------------------------------------------------------

/// n-th (0-based) value of the given kind in depth-first order, lists not counted
fn nth_of_kind(t: &Tree, want: u8, n: usize) -> Option<Tree> {
    fn walk(t: &Tree, want: u8, n: usize, cnt: &mut usize) -> Option<Tree> {
        let k = match t {
            Tree::B(_) => 1,
            Tree::I(_) => 2,
            Tree::F(_) => 3,
            _ => 0,
        };
        if k == want {
            if *cnt == n {
                return Some(t.clone());
            }
            *cnt += 1;
        }
        if let Tree::L(items) = t {
            for it in items {
                if let Some(x) = walk(it, want, n, cnt) {
                    return Some(x);
                }
            }
        }
        None
    }
    let mut cnt = 0;
    walk(t, want, n, &mut cnt)
}

fn elementwise<T: Copy>(second: &[T], top: &[T], off: i32, f: impl Fn(T, T) -> T) -> Vec<T> {
    let mut r = second.to_vec();
    for j in 0..second.len() {
        let k = j as i64 - off as i64;
        if k >= 0 && (k as usize) < top.len() {
            r[j] = f(second[j], top[k as usize]);
        }
    }
    r
}
/// positions of the second vector that overlap the shifted top vector
fn overlap(second_len: usize, top_len: usize, off: i32) -> Vec<(usize, usize)> {
    (0..second_len)
        .filter_map(|j| {
            let k = j as i64 - off as i64;
            if k >= 0 && (k as usize) < top_len {
                Some((j, k as usize))
            } else {
                None
            }
        })
        .collect()
}

pub fn spec(name: &str, m0: &M) -> Exp {
    let ft = match foot(name) {
        Some(f) => f,
        None => return Exp::Unknown,
    };
    if ft.random && name != "EXEC.CMD" {
        // the documented parameter guards of the vector generators ("... this acts as a NOOP"): C10 rule
        if !missing(&ft, m0) {
            let guard_fails = match name {
                "BOOLVECTOR.RAND" => m0.i[0] < 0 || !(m0.f[0] >= 0.0 && m0.f[0] <= 1.0),
                // size on top, then max, then min
                "INTVECTOR.RAND" => m0.i[0] < 0 || m0.i[1] < m0.i[2],
                // mean on top, standard deviation second
                "FLOATVECTOR.RAND" => m0.i[0] < 0 || m0.f[1] < 0.0,
                _ => false,
            };
            if guard_fails {
                return Exp::Unfired;
            }
        }
        return Exp::Any;
    }
    if name == "EXEC.CMD" {
        return Exp::Any;
    }
    if missing(&ft, m0) {
        // documented for the two index loops: "First the code and the index arguments are saved locally and
        // popped": without an index the body is taken and nothing runs (or, C10 latitude, nothing is taken)
        if name == "EXEC.LOOP" && !m0.e.is_empty() {
            let mut a = m0.clone();
            a.e.remove(0);
            return Exp::OneOfOrUnfired(vec![a]);
        }
        if name == "CODE.LOOP" && !m0.c.is_empty() {
            let mut a = m0.clone();
            a.c.remove(0);
            return Exp::OneOfOrUnfired(vec![a]);
        }
        return Exp::Unfired;
    }
    let mut m = m0.clone();
    let (prefix, op) = name.split_once('.').unwrap_or((name, ""));

    // ---- generic stack manipulation (A.2)
    if let Some((t, id)) = stack_type(prefix) {
        match op {
            "DUP" => {
                on_stack!(m, t, |s| g_dup(s));
                return one(m);
            }
            "POP" => {
                on_stack!(m, t, |s| g_pop(s));
                return one(m);
            }
            "SWAP" => {
                on_stack!(m, t, |s| g_swap(s));
                return one(m);
            }
            "ROT" => {
                on_stack!(m, t, |s| g_rot(s));
                return one(m);
            }
            "YANK" => {
                let idx = m.i.remove(0);
                on_stack!(m, t, |s| g_yank(s, idx));
                return one(m);
            }
            "YANKDUP" => {
                let idx = m.i.remove(0);
                on_stack!(m, t, |s| g_yankdup(s, idx));
                return one(m);
            }
            "SHOVE" => {
                let idx = m.i.remove(0);
                on_stack!(m, t, |s| g_shove(s, idx));
                return one(m);
            }
            "FLUSH" => {
                on_stack!(m, t, |s| s.clear());
                return one(m);
            }
            "STACKDEPTH" => {
                let d = m.depth(t) as i32 + if t == Comp::I { 1 } else { 0 };
                m.i.insert(0, d);
                return one(m);
            }
            "ID" => {
                m.i.insert(0, id);
                return one(m);
            }
            "DEFINE" if t != Comp::N => {
                let lit = literal_of(&m, t);
                let nm = m.n.remove(0);
                on_stack!(m, t, |s| {
                    s.remove(0);
                });
                m.bindings.insert(nm, lit);
                return one(m);
            }
            _ => {}
        }
    }

    match name {
        "NOOP" | "CODE.NOOP" => one(m),
        // ---- BOOLEAN (A.3)
        "BOOLEAN.=" | "BOOLEAN.AND" | "BOOLEAN.OR" => {
            let b = m.b.remove(0);
            let a = m.b.remove(0);
            m.b.insert(0, match name {
                "BOOLEAN.=" => a == b,
                "BOOLEAN.AND" => a && b,
                _ => a || b,
            });
            one(m)
        }
        "BOOLEAN.NOT" => {
            m.b[0] = !m.b[0];
            one(m)
        }
        "BOOLEAN.FROMFLOAT" => {
            // "Pushes FALSE if the top FLOAT is 0.0, or TRUE otherwise"; whether the operand is popped is not said
            let v = m.f[0] != 0.0;
            m.b.insert(0, v);
            let mut m2 = m.clone();
            m2.f.remove(0);
            Exp::OneOf(vec![m2, m])
        }
        "BOOLEAN.FROMINTEGER" => {
            let v = m.i[0] != 0;
            m.b.insert(0, v);
            let mut m2 = m.clone();
            m2.i.remove(0);
            Exp::OneOf(vec![m2, m])
        }
        // ---- INTEGER
        "INTEGER.+" | "INTEGER.-" | "INTEGER.*" => {
            let b = m.i.remove(0);
            let a = m.i.remove(0);
            let r = match name {
                "INTEGER.+" => a.checked_add(b),
                "INTEGER.-" => a.checked_sub(b),
                _ => a.checked_mul(b),
            };
            match r {
                Some(v) => {
                    m.i.insert(0, v);
                    one(m)
                }
                None => {
                    m.i.insert(0, 0);
                    wild(m, Comp::I, 0, anyval())
                }
            }
        }
        "INTEGER./" | "INTEGER.%" => {
            let b = m.i[0];
            let a = m.i[1];
            if b == 0 {
                return Exp::Unfired;
            }
            m.i.remove(0);
            m.i.remove(0);
            if name == "INTEGER./" {
                match a.checked_div(b) {
                    Some(v) => {
                        m.i.insert(0, v);
                        one(m)
                    }
                    None => {
                        m.i.insert(0, 0);
                        wild(m, Comp::I, 0, anyval())
                    }
                }
            } else {
                m.i.insert(0, floored_mod_i(a, b));
                one(m)
            }
        }
        "INTEGER.<" | "INTEGER.=" | "INTEGER.>" => {
            let b = m.i.remove(0);
            let a = m.i.remove(0);
            m.b.insert(0, match name {
                "INTEGER.<" => a < b,
                "INTEGER.=" => a == b,
                _ => a > b,
            });
            one(m)
        }
        "INTEGER.ABS" => {
            let a = m.i.remove(0);
            match a.checked_abs() {
                Some(v) => {
                    m.i.insert(0, v);
                    one(m)
                }
                None => {
                    m.i.insert(0, 0);
                    wild(m, Comp::I, 0, anyval())
                }
            }
        }
        "INTEGER.MAX" | "INTEGER.MIN" => {
            let b = m.i.remove(0);
            let a = m.i.remove(0);
            m.i.insert(0, if name == "INTEGER.MAX" { a.max(b) } else { a.min(b) });
            one(m)
        }
        "INTEGER.FROMBOOLEAN" => {
            let b = m.b.remove(0);
            m.i.insert(0, if b { 1 } else { 0 });
            one(m)
        }
        "INTEGER.FROMFLOAT" => {
            let x = m.f.remove(0);
            let t = x.trunc();
            if t.is_nan() || t < -2147483648.0 || t >= 2147483648.0 {
                m.i.insert(0, 0);
                wild(m, Comp::I, 0, anyval())
            } else {
                m.i.insert(0, t as i32);
                one(m)
            }
        }
        "INTEGER.DDUP" => {
            let top = m.i[0];
            let second = m.i[1];
            m.i.insert(0, second);
            m.i.insert(0, top);
            one(m)
        }
        // ---- FLOAT
        "FLOAT.+" | "FLOAT.-" | "FLOAT.*" => {
            let b = m.f.remove(0);
            let a = m.f.remove(0);
            m.f.insert(0, match name {
                "FLOAT.+" => a + b,
                "FLOAT.-" => a - b,
                _ => a * b,
            });
            one(m)
        }
        "FLOAT./" | "FLOAT.%" => {
            let b = m.f[0];
            let a = m.f[1];
            if b == 0.0 {
                return Exp::Unfired;
            }
            m.f.remove(0);
            m.f.remove(0);
            m.f.insert(0, if name == "FLOAT./" { a / b } else { floored_mod_f(a, b) });
            one(m)
        }
        "FLOAT.<" | "FLOAT.=" | "FLOAT.>" => {
            let b = m.f.remove(0);
            let a = m.f.remove(0);
            m.b.insert(0, match name {
                "FLOAT.<" => a < b,
                "FLOAT.=" => a == b,
                _ => a > b,
            });
            one(m)
        }
        "FLOAT.MAX" | "FLOAT.MIN" => {
            let b = m.f.remove(0);
            let a = m.f.remove(0);
            if a.is_nan() || b.is_nan() {
                let mut m1 = m.clone();
                m1.f.insert(0, a);
                let mut m2 = m;
                m2.f.insert(0, b);
                Exp::OneOf(vec![m1, m2])
            } else {
                m.f.insert(0, if name == "FLOAT.MAX" { if a > b { a } else { b } } else if a > b { b } else { a });
                one(m)
            }
        }
        "FLOAT.SIN" | "FLOAT.COS" | "FLOAT.TAN" | "FLOAT.EXP" => {
            let a = m.f.remove(0);
            m.f.insert(0, match name {
                "FLOAT.SIN" => a.sin(),
                "FLOAT.COS" => a.cos(),
                "FLOAT.TAN" => a.tan(),
                _ => a.exp(),
            });
            one(m)
        }
        "FLOAT.FROMBOOLEAN" => {
            let b = m.b.remove(0);
            m.f.insert(0, if b { 1.0 } else { 0.0 });
            one(m)
        }
        "FLOAT.FROMINTEGER" => {
            let a = m.i.remove(0);
            m.f.insert(0, a as f32);
            one(m)
        }
        // ---- NAME
        "NAME.=" => {
            let b = m.n.remove(0);
            let a = m.n.remove(0);
            m.b.insert(0, a == b);
            one(m)
        }
        "NAME.CAT" => {
            let b = m.n.remove(0);
            let a = m.n.remove(0);
            m.n.insert(0, format!("{} {}", a, b));
            one(m)
        }
        "NAME.QUOTE" => {
            m.quote = true;
            one(m)
        }
        "NAME.SEND" => {
            m.send = true;
            one(m)
        }
        // ---- CODE conversions
        "CODE.FROMBOOLEAN" => {
            let v = m.b.remove(0);
            m.c.insert(0, Tree::B(v));
            one(m)
        }
        "CODE.FROMFLOAT" => {
            let v = m.f.remove(0);
            m.c.insert(0, Tree::F(v));
            one(m)
        }
        "CODE.FROMINTEGER" => {
            let v = m.i.remove(0);
            m.c.insert(0, Tree::I(v));
            one(m)
        }
        "CODE.FROMNAME" => {
            let v = m.n.remove(0);
            m.c.insert(0, Tree::Name(v));
            one(m)
        }
        // ---- control flow (A.4)
        "EXEC.IF" => {
            let first = m.e.remove(0);
            let second = m.e.remove(0);
            let b = m.b.remove(0);
            m.e.insert(0, if b { first } else { second });
            one(m)
        }
        "CODE.IF" => {
            let first = m.c.remove(0);
            let second = m.c.remove(0);
            let b = m.b.remove(0);
            m.e.insert(0, if b { second } else { first });
            one(m)
        }
        "EXEC.K" => {
            m.e.remove(1);
            one(m)
        }
        "EXEC.S" => {
            let a = m.e.remove(0);
            let b = m.e.remove(0);
            let c = m.e.remove(0);
            m.e.insert(0, Tree::L(vec![b, c.clone()]));
            m.e.insert(0, c);
            m.e.insert(0, a);
            one(m)
        }
        "EXEC.Y" => {
            let top = m.e[0].clone();
            m.e.insert(1, Tree::L(vec![Tree::ins("EXEC.Y"), top]));
            one(m)
        }
        "CODE.DO" => {
            let it = m.c[0].clone();
            m.e.insert(0, Tree::ins("CODE.POP"));
            m.e.insert(0, it);
            one(m)
        }
        "CODE.DO*" => {
            let it = m.c[0].clone();
            m.e.insert(0, it);
            m.e.insert(0, Tree::ins("CODE.POP"));
            one(m)
        }
        "CODE.QUOTE" => {
            let it = m.e.remove(0);
            m.c.insert(0, it);
            one(m)
        }
        "EXEC.LOOP" => {
            let body = m.e.remove(0);
            let (cur, dest) = m.x[0];
            if cur < dest {
                m.e.insert(0, Tree::L(vec![Tree::ins("INDEX.INCREASE"), Tree::ins("EXEC.LOOP"), body.clone()]));
                m.e.insert(0, body);
            } else {
                m.x.remove(0);
            }
            one(m)
        }
        "CODE.LOOP" => {
            // documented meaning: like EXEC.LOOP with the body taken from the CODE stack; to run the
            // body again the re-armed loop has to put it back on the CODE stack (quote it)
            let body = m.c.remove(0);
            let (cur, dest) = m.x[0];
            if cur < dest {
                let mut a = m.clone();
                a.e.insert(0, Tree::L(vec![Tree::ins("INDEX.INCREASE"), Tree::ins("CODE.QUOTE"), body.clone(), Tree::ins("CODE.LOOP")]));
                a.e.insert(0, body);
                one(a)
            } else {
                m.x.remove(0);
                one(m)
            }
        }
        "INTVECTOR.LOOP" => {
            let mut v = m.iv.remove(0);
            let body = m.e.remove(0);
            if !v.is_empty() {
                let head = v.remove(0);
                m.e.insert(0, Tree::L(vec![Tree::IV(v), Tree::ins("INTVECTOR.LOOP"), body.clone()]));
                m.e.insert(0, body);
                m.i.insert(0, head);
            }
            one(m)
        }
        "INDEX.DEFINE" => {
            let i = m.i.remove(0);
            m.x.insert(0, (0, std::cmp::max(0, i) as usize));
            one(m)
        }
        "INDEX.CURRENT" => {
            let c = m.x[0].0 as i32;
            m.i.insert(0, c);
            one(m)
        }
        "INDEX.DESTINATION" => {
            let d = m.x[0].1 as i32;
            m.i.insert(0, d);
            one(m)
        }
        "INDEX.INCREASE" => {
            if m.x[0].0 < m.x[0].1 {
                m.x[0].0 += 1;
            }
            one(m)
        }
        "INDEX.POP" => {
            m.x.remove(0);
            one(m)
        }
        "INDEX.FLUSH" => {
            m.x.clear();
            one(m)
        }
        "CODE.DEFINITION" => {
            let nm = m.n.remove(0);
            if let Some(v) = m.bindings.get(&nm).cloned() {
                m.c.insert(0, v);
                one(m)
            } else {
                Exp::Unfired
            }
        }
        // ---- CODE list surgery (A.5)
        "CODE.=" | "EXEC.=" => {
            let (a, b) = if name == "CODE.=" { (m.c[1].clone(), m.c[0].clone()) } else { (m.e[1].clone(), m.e[0].clone()) };
            let mut m1 = m.clone();
            m1.b.insert(0, a == b);
            let mut m2 = m;
            m2.b.insert(0, display(&a) == display(&b));
            Exp::OneOf(vec![m1, m2])
        }
        "CODE.APPEND" => {
            // documented: concatenation of the two (atoms coerced to lists); an upstream test pins "( top second )"
            let top = m.c.remove(0);
            let second = m.c.remove(0);
            let mut m1 = m.clone();
            let mut cat = as_list(&second);
            cat.extend(as_list(&top));
            m1.c.insert(0, Tree::L(cat));
            let mut m2 = m;
            m2.c.insert(0, Tree::L(vec![top, second]));
            Exp::OneOf(vec![m1, m2])
        }
        "CODE.ATOM" => {
            let v = !m.c[0].is_list();
            m.b.insert(0, v);
            one(m)
        }
        "CODE.NULL" => {
            let v = matches!(&m.c[0], Tree::L(x) if x.is_empty());
            m.b.insert(0, v);
            one(m)
        }
        "CODE.CAR" => match m.c[0].clone() {
            Tree::L(items) => {
                if items.is_empty() {
                    // no first item: argument popped, or left alone
                    let keep = m.clone();
                    m.c.remove(0);
                    Exp::OneOf(vec![m, keep])
                } else {
                    m.c[0] = items[0].clone();
                    one(m)
                }
            }
            _ => one(m),
        },
        "CODE.CDR" => match m.c[0].clone() {
            Tree::L(items) => {
                m.c[0] = Tree::L(items.into_iter().skip(1).collect());
                one(m)
            }
            _ => {
                m.c[0] = Tree::L(vec![]);
                one(m)
            }
        },
        "CODE.CONS" => {
            let top = m.c.remove(0);
            let second = m.c.remove(0);
            // Lisp cons: second becomes the first element; an upstream test splices a list-valued second
            let mut m1 = m.clone();
            let mut l1 = vec![second.clone()];
            l1.extend(as_list(&top));
            m1.c.insert(0, Tree::L(l1));
            let mut m2 = m;
            let mut l2 = as_list(&second);
            l2.extend(as_list(&top));
            m2.c.insert(0, Tree::L(l2));
            Exp::OneOf(vec![m1, m2])
        }
        "CODE.LIST" => {
            let top = m.c[0].clone();
            let second = m.c[1].clone();
            let mut m1 = m.clone();
            m1.c.insert(0, Tree::L(vec![top.clone(), second.clone()]));
            let mut m2 = m;
            m2.c.insert(0, Tree::L(vec![second, top]));
            Exp::OneOf(vec![m1, m2])
        }
        "CODE.LENGTH" => {
            let v = match &m.c[0] {
                Tree::L(x) => x.len() as i32,
                _ => 1,
            };
            m.i.insert(0, v);
            one(m)
        }
        "CODE.SIZE" => {
            let v = m.c[0].points() as i32;
            m.i.insert(0, v);
            one(m)
        }
        "CODE.EXTRACT" => {
            let i = m.i.remove(0);
            let t = m.c[0].clone();
            let n = t.points();
            let mut outs = vec![];
            for idx in norm_readings(i, n) {
                let mut a = m.clone();
                a.c.insert(0, nth_point(&t, idx).expect("index below points"));
                outs.push(a);
            }
            Exp::OneOf(outs)
        }
        "CODE.INSERT" => {
            let i = m.i.remove(0);
            let t = m.c[0].clone();
            let x = m.c[1].clone();
            let n = t.points();
            let mut outs = vec![];
            for idx in norm_readings(i, n) {
                let mut a = m.clone();
                a.c[0] = replace_point(&t, idx, &x);
                outs.push(a);
                if idx == 0 {
                    // "replacing the whole item" may also be read as leaving it alone
                    outs.push(m.clone());
                }
            }
            Exp::OneOf(outs)
        }
        "CODE.POSITION" => {
            let v = position(&m.c[0], &m.c[1]).map(|p| p as i32).unwrap_or(-1);
            m.i.insert(0, v);
            one(m)
        }
        "CODE.CONTAINER" => {
            let v = container(&m.c[0], &m.c[1]).unwrap_or(Tree::L(vec![]));
            m.c.insert(0, v);
            one(m)
        }
        "CODE.CONTAINS" | "CODE.MEMBER" => {
            // direction pinned upstream: CONTAINS: top contains second; MEMBER: second contains top
            let (hay, needle) = if name == "CODE.CONTAINS" { (m.c[0].clone(), m.c[1].clone()) } else { (m.c[1].clone(), m.c[0].clone()) };
            let v = contains(&hay, &needle);
            if hay == needle {
                let mut m1 = m.clone();
                m1.b.insert(0, true);
                let mut m2 = m;
                m2.b.insert(0, false);
                Exp::OneOf(vec![m1, m2])
            } else {
                m.b.insert(0, v);
                one(m)
            }
        }
        "CODE.SUBST" => {
            let target = m.c.remove(0);
            let substitute = m.c.remove(0);
            let pattern = m.c.remove(0);
            m.c.insert(0, subst(&target, &pattern, &substitute));
            one(m)
        }
        "CODE.NTH" => {
            let _i = m.i.remove(0);
            let t = m.c[0].clone();
            let mut allowed: Vec<Tree> = vec![Tree::L(vec![]), t.clone()];
            allowed.extend(as_list(&t));
            let is_empty_list = matches!(&t, Tree::L(x) if x.is_empty());
            m.c.insert(0, Tree::L(vec![]));
            wild(
                m,
                Comp::C,
                0,
                Box::new(move |got: &M| {
                    if is_empty_list {
                        if got.c[0] == Tree::L(vec![]) {
                            Ok(())
                        } else {
                            Err("NTH of an empty list must be an empty list".into())
                        }
                    } else if allowed.iter().any(|a| *a == got.c[0]) {
                        Ok(())
                    } else {
                        Err(format!("{} is neither ( ), the item, nor one of its elements", got.c[0].key()))
                    }
                }),
            )
        }
        "CODE.DISCREPANCY" => {
            let a = m.c[0].clone();
            let b = m.c[1].clone();
            m.i.insert(0, 0);
            wild(
                m,
                Comp::I,
                0,
                Box::new(move |got: &M| {
                    let d = got.i[0];
                    if d < 0 {
                        return Err(format!("negative discrepancy {}", d));
                    }
                    if a == b && d != 0 {
                        return Err(format!("identical items but discrepancy {}", d));
                    }
                    Ok(())
                }),
            )
        }
        "CODE.PRINT" => {
            let s = display_stack(&m.c);
            m.n.insert(0, s);
            one(m)
        }
        // ---- vectors (A.6)
        "BOOLVECTOR.GET" | "INTVECTOR.GET" | "FLOATVECTOR.GET" => {
            let i = m.i.remove(0);
            match name {
                "BOOLVECTOR.GET" => {
                    if m.bv[0].is_empty() {
                        return Exp::Unfired;
                    }
                    let v = m.bv[0][clamp(i, m.bv[0].len())];
                    m.b.insert(0, v);
                }
                "INTVECTOR.GET" => {
                    if m.iv[0].is_empty() {
                        return Exp::Unfired;
                    }
                    let v = m.iv[0][clamp(i, m.iv[0].len())];
                    m.i.insert(0, v);
                }
                _ => {
                    if m.fv[0].is_empty() {
                        return Exp::Unfired;
                    }
                    let v = m.fv[0][clamp(i, m.fv[0].len())];
                    m.f.insert(0, v);
                }
            }
            one(m)
        }
        "BOOLVECTOR.SET" => {
            let i = m.i.remove(0);
            let v = m.b.remove(0);
            if m.bv[0].is_empty() {
                return Exp::Unfired;
            }
            let c = clamp(i, m.bv[0].len());
            m.bv[0][c] = v;
            one(m)
        }
        "INTVECTOR.SET" => {
            let i = m.i.remove(0);
            let v = m.i.remove(0);
            if m.iv[0].is_empty() {
                return Exp::Unfired;
            }
            let c = clamp(i, m.iv[0].len());
            m.iv[0][c] = v;
            one(m)
        }
        "FLOATVECTOR.SET" => {
            let i = m.i.remove(0);
            let v = m.f.remove(0);
            if m.fv[0].is_empty() {
                return Exp::Unfired;
            }
            let c = clamp(i, m.fv[0].len());
            m.fv[0][c] = v;
            one(m)
        }
        "BOOLVECTOR.AND" | "BOOLVECTOR.OR" => {
            let top = m.bv.remove(0);
            let second = m.bv.remove(0);
            let off = m.i.remove(0);
            let r = elementwise(&second, &top, off, |a, b| if name == "BOOLVECTOR.AND" { a & b } else { a | b });
            m.bv.insert(0, r);
            one(m)
        }
        "BOOLVECTOR.NOT" => {
            let v = m.bv.remove(0);
            let off = m.i.remove(0) as i64;
            let n = v.len() as i64;
            let mk = |pred: &dyn Fn(i64) -> bool| -> Vec<bool> { v.iter().enumerate().map(|(j, b)| if pred(j as i64) { !*b } else { *b }).collect() };
            let readings = vec![
                mk(&|j| j >= off),               // "indices not below the offset"
                mk(&|j| j > off),                // "indices larger than the offset", literally
                mk(&|j| j - off >= 0 && j - off < n && j >= 0), // an all-true mask shifted by the offset
                mk(&|j| j >= off && j < n + off.min(0)),
            ];
            let mut outs = vec![];
            for r in readings {
                let mut a = m.clone();
                a.bv.insert(0, r);
                outs.push(a);
            }
            Exp::OneOf(outs)
        }
        "INTVECTOR.+" | "INTVECTOR.-" | "INTVECTOR.*" | "INTVECTOR./" => {
            let top = m.iv.remove(0);
            let second = m.iv.remove(0);
            let off = m.i.remove(0);
            let ov = overlap(second.len(), top.len(), off);
            if name == "INTVECTOR./" && ov.iter().any(|(_, k)| top[*k] == 0) {
                return Exp::Unfired;
            }
            let mut r = second.clone();
            let mut overflow = vec![];
            for (j, k) in &ov {
                let (a, b) = (second[*j], top[*k]);
                let v = match name {
                    "INTVECTOR.+" => a.checked_add(b),
                    "INTVECTOR.-" => a.checked_sub(b),
                    "INTVECTOR.*" => a.checked_mul(b),
                    _ => a.checked_div(b),
                };
                match v {
                    Some(x) => r[*j] = x,
                    None => overflow.push(*j),
                }
            }
            m.iv.insert(0, r.clone());
            if overflow.is_empty() {
                one(m)
            } else {
                wild(
                    m,
                    Comp::IV,
                    0,
                    Box::new(move |got: &M| {
                        let g = &got.iv[0];
                        if g.len() != r.len() {
                            return Err(format!("result length {} expected {}", g.len(), r.len()));
                        }
                        for j in 0..r.len() {
                            if !overflow.contains(&j) && g[j] != r[j] {
                                return Err(format!("element {} is {} expected {}", j, g[j], r[j]));
                            }
                        }
                        Ok(())
                    }),
                )
            }
        }
        "FLOATVECTOR.+" | "FLOATVECTOR.-" | "FLOATVECTOR.*" | "FLOATVECTOR./" => {
            let top = m.fv.remove(0);
            let second = m.fv.remove(0);
            let off = m.i.remove(0);
            let ov = overlap(second.len(), top.len(), off);
            if name == "FLOATVECTOR./" && ov.iter().any(|(_, k)| top[*k] == 0.0) {
                return Exp::Unfired;
            }
            let r = elementwise(&second, &top, off, |a, b| match name {
                "FLOATVECTOR.+" => a + b,
                "FLOATVECTOR.-" => a - b,
                "FLOATVECTOR.*" => a * b,
                _ => a / b,
            });
            m.fv.insert(0, r);
            one(m)
        }
        "BOOLVECTOR.LENGTH" => {
            let v = m.bv[0].len() as i32;
            m.i.insert(0, v);
            one(m)
        }
        "INTVECTOR.LENGTH" => {
            let v = m.iv[0].len() as i32;
            m.i.insert(0, v);
            one(m)
        }
        "FLOATVECTOR.LENGTH" => {
            let v = m.fv[0].len() as i32;
            m.i.insert(0, v);
            one(m)
        }
        "BOOLVECTOR.COUNT" => {
            let v = m.bv[0].iter().filter(|b| **b).count() as i32;
            m.i.insert(0, v);
            one(m)
        }
        "INTVECTOR.SUM" => {
            let s: i64 = m.iv[0].iter().map(|x| *x as i64).sum();
            let mut partial_overflow = false;
            let mut acc: i32 = 0;
            for x in &m.iv[0] {
                match acc.checked_add(*x) {
                    Some(v) => acc = v,
                    None => {
                        partial_overflow = true;
                        break;
                    }
                }
            }
            if s >= i32::MIN as i64 && s <= i32::MAX as i64 && !partial_overflow {
                m.i.insert(0, s as i32);
                one(m)
            } else {
                m.i.insert(0, 0);
                wild(m, Comp::I, 0, anyval())
            }
        }
        "FLOATVECTOR.SUM" => {
            let mut s = 0.0f32;
            for x in &m.fv[0] {
                s += *x;
            }
            m.f.insert(0, s);
            one(m)
        }
        "INTVECTOR.MEAN" | "FLOATVECTOR.MEAN" => {
            let (n, mean, unrepresentable) = if name == "INTVECTOR.MEAN" {
                let v = &m.iv[0];
                let s: i64 = v.iter().map(|x| *x as i64).sum();
                let mut acc: i32 = 0;
                let mut ovf = false;
                for x in v {
                    match acc.checked_add(*x) {
                        Some(a) => acc = a,
                        None => ovf = true,
                    }
                }
                (v.len(), (s as f64 / v.len() as f64) as f32, ovf)
            } else {
                let v = &m.fv[0];
                let mut s = 0.0f32;
                for x in v {
                    s += *x;
                }
                (v.len(), s / v.len() as f32, false)
            };
            if n == 0 {
                // mean of nothing: NaN, or no result
                let keep = m.clone();
                m.f.insert(0, f32::NAN);
                return Exp::OneOf(vec![m, keep]);
            }
            m.f.insert(0, mean);
            if unrepresentable {
                return wild(m, Comp::F, 0, anyval());
            }
            wild(
                m,
                Comp::F,
                0,
                Box::new(move |got: &M| {
                    let g = got.f[0];
                    if feq(g, mean) || (g - mean).abs() <= 1e-6 * mean.abs().max(1.0) {
                        Ok(())
                    } else {
                        Err(format!("mean {} expected {}", g, mean))
                    }
                }),
            )
        }
        "BOOLVECTOR.ONES" | "BOOLVECTOR.ZEROS" | "INTVECTOR.ONES" | "INTVECTOR.ZEROS" | "FLOATVECTOR.ONES" | "FLOATVECTOR.ZEROS" => {
            let n = m.i.remove(0);
            if n <= 0 {
                return Exp::Unfired;
            }
            if n > 100_000 {
                // resource envelope: judged by C15, not here
                return Exp::Any;
            }
            let n = n as usize;
            let ones = name.ends_with("ONES");
            match prefix {
                "BOOLVECTOR" => m.bv.insert(0, vec![ones; n]),
                "INTVECTOR" => m.iv.insert(0, vec![if ones { 1 } else { 0 }; n]),
                _ => m.fv.insert(0, vec![if ones { 1.0 } else { 0.0 }; n]),
            }
            one(m)
        }
        "INTVECTOR.EMPTY" => {
            m.iv.insert(0, vec![]);
            one(m)
        }
        "FLOATVECTOR.EMPTY" => {
            m.fv.insert(0, vec![]);
            one(m)
        }
        "BOOLVECTOR.SORT*ASC" | "BOOLVECTOR.SORT*DESC" => {
            m.bv[0].sort();
            if name.ends_with("DESC") {
                m.bv[0].reverse();
            }
            one(m)
        }
        "INTVECTOR.SORT*ASC" | "INTVECTOR.SORT*DESC" => {
            m.iv[0].sort();
            if name.ends_with("DESC") {
                m.iv[0].reverse();
            }
            one(m)
        }
        "FLOATVECTOR.SORT*ASC" | "FLOATVECTOR.SORT*DESC" => {
            let v = m.fv[0].clone();
            let desc = name.ends_with("DESC");
            if v.iter().any(|x| x.is_nan()) {
                // no order exists: any permutation of the elements
                let mut want: Vec<u32> = v.iter().map(|x| if x.is_nan() { 0x7fc00000 } else { x.to_bits() }).collect();
                want.sort();
                return wild(
                    m,
                    Comp::FV,
                    0,
                    Box::new(move |got: &M| {
                        let mut have: Vec<u32> = got.fv[0].iter().map(|x| if x.is_nan() { 0x7fc00000 } else { x.to_bits() }).collect();
                        have.sort();
                        if have == want {
                            Ok(())
                        } else {
                            Err("not a permutation of the operand".into())
                        }
                    }),
                );
            }
            let mut s = v;
            s.sort_by(|a, b| a.partial_cmp(b).unwrap());
            if desc {
                s.reverse();
            }
            m.fv[0] = s;
            one(m)
        }
        "BOOLVECTOR.ROTATE" => {
            let x = m.b.remove(0);
            if m.bv[0].is_empty() {
                return Exp::Unfired;
            }
            m.bv[0].remove(0);
            m.bv[0].push(x);
            one(m)
        }
        "INTVECTOR.ROTATE" => {
            let x = m.i.remove(0);
            if m.iv[0].is_empty() {
                return Exp::Unfired;
            }
            m.iv[0].remove(0);
            m.iv[0].push(x);
            one(m)
        }
        "FLOATVECTOR.ROTATE" => {
            let x = m.f.remove(0);
            if m.fv[0].is_empty() {
                return Exp::Unfired;
            }
            m.fv[0].remove(0);
            m.fv[0].push(x);
            one(m)
        }
        "INTVECTOR.APPEND" => {
            let x = m.i.remove(0);
            m.iv[0].push(x);
            one(m)
        }
        "FLOATVECTOR.APPEND" => {
            let x = m.f.remove(0);
            m.fv[0].push(x);
            one(m)
        }
        "INTVECTOR.REMOVE" => {
            let x = m.i.remove(0);
            m.iv[0].retain(|y| *y != x);
            one(m)
        }
        "INTVECTOR.SET*INSERT" => {
            if m.iv.is_empty() {
                m.iv.insert(0, vec![]);
            }
            let x = m.i.remove(0);
            if !m.iv[0].contains(&x) {
                m.iv[0].push(x);
            }
            one(m)
        }
        "INTVECTOR.CONTAINS" => {
            let x = m.i.remove(0);
            let v = m.iv.remove(0);
            m.b.insert(0, v.contains(&x));
            one(m)
        }
        "INTVECTOR.BOOLINDEX" => {
            let v = m.bv.remove(0);
            m.iv.insert(0, v.iter().enumerate().filter(|(_, b)| **b).map(|(i, _)| i as i32).collect());
            one(m)
        }
        "INTVECTOR.FROMINT" => {
            let n = m.i.remove(0);
            let k = std::cmp::max(std::cmp::min(m.i.len() as i64, n as i64), 0) as usize;
            let mut taken: Vec<i32> = m.i.drain(0..k).collect();
            taken.reverse(); // bottom-most first
            m.iv.insert(0, taken);
            one(m)
        }
        "FLOATVECTOR.*SCALAR" => {
            let x = m.f.remove(0);
            for y in m.fv[0].iter_mut() {
                *y *= x;
            }
            one(m)
        }
        "FLOATVECTOR.SINE" => {
            let a = m.f.remove(0);
            let x = m.f.remove(0);
            let phi = m.f.remove(0);
            let n = m.i.remove(0);
            if n <= 0 {
                // no elements: an empty vector, or nothing
                let keep = m.clone();
                m.fv.insert(0, vec![]);
                return Exp::OneOf(vec![m, keep]);
            }
            if n > 100_000 {
                return Exp::Any;
            }
            let v: Vec<f32> = (0..n as usize).map(|i| a * (2.0 * std::f32::consts::PI * x * i as f32 + phi).sin()).collect();
            m.fv.insert(0, v);
            one(m)
        }
        "BOOLVECTOR.EQUAL" => {
            let b = m.bv.remove(0);
            let a = m.bv.remove(0);
            m.b.insert(0, a == b);
            one(m)
        }
        "INTVECTOR.EQUAL" => {
            let b = m.iv.remove(0);
            let a = m.iv.remove(0);
            m.b.insert(0, a == b);
            one(m)
        }
        "FLOATVECTOR.EQUAL" => {
            let b = m.fv.remove(0);
            let a = m.fv.remove(0);
            m.b.insert(0, a == b);
            one(m)
        }
        // ---- queues (A.7)
        "INPUT.AVAILABLE" => {
            let v = !m.input.is_empty();
            m.b.insert(0, v);
            one(m)
        }
        "INPUT.STACKDEPTH" => {
            let v = m.input.len() as i32;
            m.i.insert(0, v);
            one(m)
        }
        "OUTPUT.STACKDEPTH" => {
            let v = m.output.len() as i32;
            m.i.insert(0, v);
            one(m)
        }
        "GRAPH.STACKDEPTH" => {
            let v = m.graphs.len() as i32;
            m.i.insert(0, v);
            one(m)
        }
        "INPUT.READ" => {
            let msg = m.input[0].clone();
            m.bv.insert(0, msg.body);
            m.iv.insert(0, msg.header);
            one(m)
        }
        "INPUT.NEXT" => {
            m.input.remove(0);
            one(m)
        }
        "INPUT.GET" => {
            let i = m.i.remove(0);
            let body = m.input[0].body.clone();
            if body.is_empty() {
                return Exp::Unfired;
            }
            m.b.insert(0, body[clamp(i, body.len())]);
            one(m)
        }
        "OUTPUT.FLUSH" => {
            m.output.clear();
            one(m)
        }
        "OUTPUT.WRITE" => {
            let body = m.bv.remove(0);
            let header = m.iv.remove(0);
            if m.output.len() < 3 {
                m.output.push(Msg { header, body });
            }
            one(m)
        }
        // ---- graph
        "GRAPH.ADD" => {
            if m.graphs.len() < 100 {
                m.graphs.insert(0, G::default());
            }
            one(m)
        }
        "GRAPH.DUP" => {
            if m.graphs.len() < 100 {
                let g = m.graphs[0].clone();
                m.graphs.insert(0, g);
            }
            one(m)
        }
        "GRAPH.NODE*ADD" => {
            let st = m.i.remove(0);
            m.graphs[0].nodes.insert(next_node_id(), st);
            m.i.insert(0, next_node_id() as i32);
            one(m)
        }
        "GRAPH.NODE*SETSTATE" => {
            let st = m.i.remove(0);
            let id = m.i.remove(0);
            if id > 0 {
                if let Some(s) = m.graphs[0].nodes.get_mut(&(id as usize)) {
                    *s = st;
                }
            }
            one(m)
        }
        "GRAPH.NODE*GETSTATE" => {
            let id = m.i.remove(0);
            match uid(id).filter(|x| *x > 0).and_then(|x| m.graphs[0].nodes.get(&x).copied()) {
                Some(st) => {
                    m.i.insert(0, st);
                    one(m)
                }
                None => Exp::Unfired,
            }
        }
        "GRAPH.NODE*HISTORY" => {
            let pos = m.i.remove(0);
            let id = m.i.remove(0);
            let st = uid(pos).and_then(|p| m.graphs.get(p)).and_then(|g| uid(id).and_then(|x| g.nodes.get(&x).copied()));
            match st {
                Some(st) => {
                    m.i.insert(0, st);
                    one(m)
                }
                None => Exp::Unfired,
            }
        }
        "GRAPH.NODE*STATESWITCH" => {
            let ids = m.iv.remove(0);
            let sw = m.bv.remove(0);
            let off = m.i.remove(0);
            let on = m.i.remove(0);
            for k in 0..std::cmp::min(ids.len(), sw.len()) {
                if let Some(x) = uid(ids[k]) {
                    if let Some(s) = m.graphs[0].nodes.get_mut(&x) {
                        *s = if sw[k] { on } else { off };
                    }
                }
            }
            one(m)
        }
        "GRAPH.NODES" => {
            let states = m.iv.remove(0);
            let set = filter_nodes(&m.graphs[0], &states);
            m.iv.insert(0, set.clone());
            set_iv_check(m, set)
        }
        "GRAPH.NODES*HISTORY" => {
            let pos = m.i.remove(0);
            match uid(pos).and_then(|p| m.graphs.get(p)).cloned() {
                Some(g) => {
                    let states = m.iv.remove(0);
                    let set = filter_nodes(&g, &states);
                    m.iv.insert(0, set.clone());
                    set_iv_check(m, set)
                }
                None => Exp::Unfired,
            }
        }
        "GRAPH.NODE*PREDECESSORS" | "GRAPH.NODE*SUCCESSORS" | "GRAPH.NODE*NEIGHBORS" => {
            let states = m.iv.remove(0);
            let id = m.i.remove(0);
            if id <= 0 {
                return Exp::Unfired;
            }
            let g = &m.graphs[0];
            let set = match name {
                "GRAPH.NODE*PREDECESSORS" => preds(g, id as usize, &states),
                "GRAPH.NODE*SUCCESSORS" => succs(g, id as usize, &states),
                _ => {
                    let mut v = preds(g, id as usize, &states);
                    v.extend(succs(g, id as usize, &states));
                    v
                }
            };
            m.iv.insert(0, set.clone());
            set_iv_check(m, set)
        }
        "GRAPH.EDGE*ADD" => {
            let w = m.f.remove(0);
            let dest = m.i.remove(0);
            let origin = m.i.remove(0);
            if let (Some(o), Some(d)) = (uid(origin), uid(dest)) {
                let g = &mut m.graphs[0];
                if g.nodes.contains_key(&o) && g.nodes.contains_key(&d) && weight(g, o, d).is_none() {
                    g.edges.entry(d).or_default().push((o, w));
                }
            }
            one(m)
        }
        "GRAPH.EDGE*SETWEIGHT" => {
            let w = m.f.remove(0);
            let dest = m.i.remove(0);
            let origin = m.i.remove(0);
            if let (Some(o), Some(d)) = (uid(origin), uid(dest)) {
                if let Some(inc) = m.graphs[0].edges.get_mut(&d) {
                    if let Some(e) = inc.iter_mut().find(|(x, _)| *x == o) {
                        e.1 = w;
                    }
                }
            }
            one(m)
        }
        "GRAPH.EDGE*GETWEIGHT" => {
            let dest = m.i.remove(0);
            let origin = m.i.remove(0);
            match (uid(origin), uid(dest)) {
                (Some(o), Some(d)) => match weight(&m.graphs[0], o, d) {
                    Some(w) => {
                        m.f.insert(0, w);
                        one(m)
                    }
                    None => Exp::Unfired,
                },
                _ => Exp::Unfired,
            }
        }
        "GRAPH.EDGE*HISTORY" => {
            let pos = m.i.remove(0);
            let dest = m.i.remove(0);
            let origin = m.i.remove(0);
            let w = uid(pos).and_then(|p| m.graphs.get(p)).and_then(|g| match (uid(origin), uid(dest)) {
                (Some(o), Some(d)) => weight(g, o, d),
                _ => None,
            });
            match w {
                Some(w) => {
                    m.f.insert(0, w);
                    if pos == 0 {
                        // doc: "stack position"; the code requires a position > 0
                        Exp::OneOfOrUnfired(vec![m])
                    } else {
                        one(m)
                    }
                }
                None => Exp::Unfired,
            }
        }
        "GRAPH.PRINT" => {
            m.n.insert(0, String::new());
            wild(m, Comp::N, 0, anyval())
        }
        "GRAPH.PRINT*DIFF" => {
            let same = graph_sets_equal(&m.graphs[0], &m.graphs[1]);
            if same {
                one(m)
            } else {
                m.n.insert(0, String::new());
                wild(
                    m,
                    Comp::N,
                    0,
                    Box::new(|got: &M| if got.n[0].trim().is_empty() { Err("graphs differ but the diff text is empty".into()) } else { Ok(()) }),
                )
            }
        }
        // ---- LIST records
        "LIST.ADD" | "LIST.SET" => {
            let mut pos = None;
            if name == "LIST.SET" {
                let p = m.i.remove(0);
                if m.c.is_empty() {
                    return Exp::Unfired;
                }
                pos = Some(clamp(p, m.c.len()));
            }
            let ids = m.iv.remove(0);
            let mut popped: Vec<Tree> = vec![];
            for id in ids {
                match id {
                    1 => {
                        if !m.b.is_empty() {
                            popped.push(Tree::B(m.b.remove(0)));
                        }
                    }
                    2 => {
                        if !m.bv.is_empty() {
                            popped.push(Tree::BV(m.bv.remove(0)));
                        }
                    }
                    3 => {
                        if !m.c.is_empty() {
                            popped.push(m.c.remove(0));
                        }
                    }
                    4 => {
                        if !m.e.is_empty() {
                            popped.push(m.e.remove(0));
                        }
                    }
                    5 => {
                        if !m.f.is_empty() {
                            popped.push(Tree::F(m.f.remove(0)));
                        }
                    }
                    6 => {
                        if !m.fv.is_empty() {
                            popped.push(Tree::FV(m.fv.remove(0)));
                        }
                    }
                    9 => {
                        if !m.i.is_empty() {
                            popped.push(Tree::I(m.i.remove(0)));
                        }
                    }
                    10 => {
                        if !m.iv.is_empty() {
                            popped.push(Tree::IV(m.iv.remove(0)));
                        }
                    }
                    11 => {
                        if !m.n.is_empty() {
                            popped.push(Tree::Name(m.n.remove(0)));
                        }
                    }
                    _ => {}
                }
            }
            popped.reverse(); // first popped = last printed, so that executing the record restores the order
            let rec = Tree::L(popped);
            match pos {
                None => m.c.insert(0, rec),
                Some(p) => {
                    if p < m.c.len() {
                        m.c[p] = rec;
                    } else {
                        // the addressed record was itself consumed by the id vector: the new record is kept on top
                        m.c.insert(0, rec);
                    }
                }
            }
            one(m)
        }
        "LIST.REMOVE" => {
            let p = m.i.remove(0);
            let c = clamp(p, m.c.len());
            m.c.remove(c);
            one(m)
        }
        "LIST.GET" => {
            let p = m.i.remove(0);
            let c = clamp(p, m.c.len());
            if m.c[c].is_list() {
                let it = m.c[c].clone();
                m.e.insert(0, it);
                one(m)
            } else {
                Exp::Unfired
            }
        }
        "LIST.BVAL" | "LIST.IVAL" | "LIST.FVAL" => {
            let n = m.i.remove(0);
            let p = m.i.remove(0);
            let c = clamp(p, m.c.len());
            let want = match name {
                "LIST.BVAL" => 1,
                "LIST.IVAL" => 2,
                _ => 3,
            };
            let found = if n >= 0 { nth_of_kind(&m.c[c], want, n as usize) } else { None };
            match name {
                "LIST.BVAL" => m.b.insert(0, match found {
                    Some(Tree::B(b)) => b,
                    _ => false,
                }),
                "LIST.IVAL" => m.i.insert(0, match found {
                    Some(Tree::I(b)) => b,
                    _ => 0,
                }),
                _ => m.f.insert(0, match found {
                    Some(Tree::F(b)) => b,
                    _ => 0.0,
                }),
            }
            one(m)
        }
        "LIST.NEIGHBOR*IDS" | "LIST.NEIGHBOR*BVALS" | "LIST.NEIGHBOR*IVALS" | "LIST.NEIGHBOR*FVALS" => {
            let position = if name == "LIST.NEIGHBOR*IDS" { 0 } else { m.i.remove(0) };
            let size = std::cmp::max(m.i.remove(0), 0);
            let index = m.i.remove(0);
            let dims = m.i.remove(0);
            let radius = m.f.remove(0);
            if size as i64 > 5000 {
                return Exp::Any; // resource envelope (C15)
            }
            let index = clamp(index, size as usize);
            let dims = std::cmp::max(std::cmp::min(size, dims), 0) as usize;
            let radius = if radius.is_nan() { 0.0 } else { radius.max(0.0) };
            if !neighbors_ambiguous(size as usize, dims, index, radius).is_empty() {
                // a point within single-precision rounding distance of the radius: membership left open
                return Exp::Any;
            }
            let nb = match neighbors_ref(size as usize, dims, index, radius) {
                Some(v) => v,
                None => return Exp::Unfired,
            };
            match name {
                "LIST.NEIGHBOR*IDS" => m.iv.insert(0, nb),
                _ => {
                    let items: Vec<&Tree> = nb.iter().filter_map(|n| m.c.get(*n as usize)).collect();
                    let want = match name {
                        "LIST.NEIGHBOR*BVALS" => 1,
                        "LIST.NEIGHBOR*IVALS" => 2,
                        _ => 3,
                    };
                    let vals: Vec<Option<Tree>> = items.iter().map(|t| if position >= 0 { nth_of_kind(t, want, position as usize) } else { None }).collect();
                    match name {
                        "LIST.NEIGHBOR*BVALS" => {
                            let v = vals.iter().map(|x| matches!(x, Some(Tree::B(true)))).collect();
                            m.bv.insert(0, v)
                        }
                        "LIST.NEIGHBOR*IVALS" => {
                            let v = vals.iter().map(|x| if let Some(Tree::I(i)) = x { *i } else { 0 }).collect();
                            m.iv.insert(0, v)
                        }
                        _ => {
                            let v = vals.iter().map(|x| if let Some(Tree::F(i)) = x { *i } else { 0.0 }).collect();
                            m.fv.insert(0, v)
                        }
                    }
                }
            }
            one(m)
        }
        _ => Exp::Unknown,
    }
}

/// The C10 rule for an instruction that did not apply.
pub fn unfired_ok(ft: &Foot, before: &M, after: &M) -> Result<(), String> {
    for c in crate::model::ALL_COMPS.iter() {
        let need = ft.ops.iter().filter(|(oc, _)| oc == c).map(|(_, n)| *n).max();
        match need {
            Some(k) if !matches!(c, Comp::Gr | Comp::In | Comp::Out) => {
                let b = before.item_keys(*c);
                let a = after.item_keys(*c);
                if a.len() > b.len() {
                    return Err(format!("{:?} grew although the instruction could not apply", c));
                }
                let lost = b.len() - a.len();
                if lost > k {
                    return Err(format!("{:?} lost {} items, at most {} are its operands", c, lost, k));
                }
                if a[..] != b[lost..] {
                    return Err(format!("{:?} changed below/besides the consumed operands", c));
                }
            }
            _ => {
                if !before.comp_eq(after, *c) {
                    return Err(format!("{:?} changed although the instruction could not apply", c));
                }
            }
        }
    }
    Ok(())
}

/// Documented-semantics verdict (no known-finding lookup).
pub fn doc_verdict(name: &str, m0: &M, out: &Outcome) -> Result<(), (String, String)> {
    let exp = spec(name, m0);
    let got = match out {
        Outcome::Panic(p) => return Err((panic_class(p), p.clone())),
        Outcome::Ok(g) => g,
    };
    let mismatch = |cands: &[M]| -> (String, String) {
        let d = cands.first().map(|c| c.diff(got)).unwrap_or_default();
        (
            format!("mismatch:{}", d.iter().map(|c| format!("{:?}", c)).collect::<Vec<_>>().join("+")),
            format!("documented: {{{}}} observed: {{{}}}", cands.first().map(|c| c.key()).unwrap_or_default(), got.key()),
        )
    };
    match exp {
        Exp::Unknown => Err(("unmodelled".into(), format!("no reference row for {}", name))),
        Exp::Any => match foot(name) {
            Some(ft) => {
                let allowed = ft.allowed();
                let bad: Vec<Comp> = m0.diff(got).into_iter().filter(|c| !allowed.contains(c)).collect();
                if bad.is_empty() {
                    Ok(())
                } else {
                    Err((format!("footprint:{:?}", bad), format!("changed {:?} outside the documented footprint", bad)))
                }
            }
            None => Ok(()),
        },
        Exp::Unfired => {
            let ft = foot(name).expect("footprint");
            unfired_ok(&ft, m0, got).map_err(|e| ("unfired-effect".to_string(), format!("{} | before {{{}}} after {{{}}}", e, m0.key(), got.key())))
        }
        Exp::OneOf(c) => {
            if c.iter().any(|x| x.diff(got).is_empty()) {
                Ok(())
            } else {
                Err(mismatch(&c))
            }
        }
        Exp::OneOfOrUnfired(c) => {
            if c.iter().any(|x| x.diff(got).is_empty()) {
                Ok(())
            } else {
                let ft = foot(name).expect("footprint");
                unfired_ok(&ft, m0, got).map_err(|_| mismatch(&c))
            }
        }
        Exp::Check(c, pred) => pred(got).map_err(|e| {
            let (cl, det) = mismatch(&c);
            (cl, format!("{} | {}", e, det))
        }),
    }
}

pub fn judge(name: &str, m0: &M, out: &Outcome) -> Verdict {
    match doc_verdict(name, m0, out) {
        Ok(()) => Verdict::Pass,
        Err((class, detail)) => {
            if let Some(id) = crate::known::asis(name, m0, out) {
                Verdict::Known(id)
            } else {
                Verdict::fail(name, &class, detail)
            }
        }
    }
}

// ---------------------------------------------------------------------------
// Reference interpreter (A.1) for whole executions

/// what the harness instruction PROBE records: INDEX.CURRENT of the top index
/// (-1 if none), the top INTEGER (None if none), the depth of the INDEX stack
pub type ProbeRec = (i64, Option<i32>, usize);

pub fn probe_of(m: &M) -> ProbeRec {
    (m.x.first().map(|x| x.0 as i64).unwrap_or(-1), m.i.first().copied(), m.x.len())
}

/// One documented interpreter step. Returns false if EXEC was empty (nothing
/// changes). `as_is`: at known-finding sites use the recorded current behaviour
/// instead of the documented one. Ambiguous rows take their first reading.
pub fn ref_step(m: &mut M, log: &mut Vec<ProbeRec>, as_is: bool) -> bool {
    if m.e.is_empty() {
        return false;
    }
    let top = m.e.remove(0);
    match top {
        Tree::B(v) => m.b.insert(0, v),
        Tree::I(v) => m.i.insert(0, v),
        Tree::F(v) => m.f.insert(0, v),
        Tree::Idx(c, d) => m.x.insert(0, (c, d)),
        Tree::BV(v) => m.bv.insert(0, v),
        Tree::IV(v) => m.iv.insert(0, v),
        Tree::FV(v) => m.fv.insert(0, v),
        Tree::Graph(g) => {
            if m.graphs.len() < 100 {
                m.graphs.insert(0, g)
            }
        }
        Tree::Name(n) => {
            if m.quote {
                m.n.insert(0, n);
                m.quote = false;
            } else if let Some(b) = m.bindings.get(&n).cloned() {
                m.e.insert(0, b);
            } else {
                m.n.insert(0, n);
            }
        }
        Tree::L(items) => {
            for it in items.into_iter().rev() {
                m.e.insert(0, it);
            }
        }
        Tree::Ins(name) => {
            if name == "PROBE" {
                log.push(probe_of(m));
            } else if name.starts_with("TICK") || name.starts_with("GROW") {
                // harness instructions are modelled by their callers
            } else {
                if as_is {
                    if let Some((_, states)) = crate::known::asis_states(&name, m) {
                        *m = states.into_iter().next().unwrap();
                        return true;
                    }
                }
                match spec(&name, m) {
                    Exp::OneOf(v) | Exp::OneOfOrUnfired(v) | Exp::Check(v, _) => {
                        if let Some(first) = v.into_iter().next() {
                            *m = first;
                        }
                    }
                    // unfired: the reference consumes nothing
                    Exp::Unfired | Exp::Unknown | Exp::Any => {}
                }
            }
        }
    }
    true
}
