use mcw::budget::Counting;
use mcw::core::{emit_result, install_panic_hook, Ctx};

#[global_allocator]
static GLOBAL: Counting = Counting;
use std::io::Write;

fn usage() -> ! {
    eprintln!("usage: mcw <prop> <family> [--tier quick|thorough] [--shard i/n] [--only id] [--profile p] [--digests file] [--crumb file]");
    std::process::exit(2)
}

fn main() {
    let args: Vec<String> = std::env::args().collect();
    if args.len() < 3 {
        usage();
    }
    let mut ctx = Ctx::new(&args[1], &args[2]);
    let mut k = 3;
    while k < args.len() {
        match args[k].as_str() {
            "--tier" => {
                ctx.tier_thorough = args[k + 1] == "thorough";
                k += 2;
            }
            "--shard" => {
                let (a, b) = args[k + 1].split_once('/').unwrap_or_else(|| usage());
                ctx.shard = a.parse().unwrap();
                ctx.nshards = b.parse().unwrap();
                k += 2;
            }
            "--only" => {
                ctx.only = Some(args[k + 1].parse().unwrap());
                k += 2;
            }
            "--prefix" => {
                ctx.prefix = true;
                k += 1;
            }
            "--skip" => {
                ctx.skip = args[k + 1].split(',').filter(|x| !x.is_empty()).map(|x| x.parse().unwrap()).collect();
                k += 2;
            }
            "--from" => {
                ctx.from = args[k + 1].parse().unwrap();
                k += 2;
            }
            "--profile" => {
                ctx.profile = args[k + 1].clone();
                k += 2;
            }
            "--digests" => {
                ctx.digests = Some(std::fs::File::create(&args[k + 1]).expect("digest file"));
                k += 2;
            }
            "--crumb" => {
                ctx.breadcrumb = Some(std::fs::OpenOptions::new().create(true).write(true).open(&args[k + 1]).expect("crumb file"));
                k += 2;
            }
            _ => usage(),
        }
    }
    install_panic_hook();
    limit_address_space();
    {
        // families that leave breadcrumbs (and every replay) bound every case by wall clock as a backstop against a spin
        mcw::core::start_watchdog(std::env::var("MCW_CASE_WALL_S").ok().and_then(|v| v.parse().ok()).unwrap_or(60));
    }
    let t0 = std::time::Instant::now();
    if ctx.prop == "SPECCOV" {
        mcw::sweep::speccov(&mut mcw::core::Real::new());
        return;
    }
    if ctx.prop == "NAMES" {
        // dev helper: the registered instruction names of the tree under test
        for n in mcw::core::Real::new().names() {
            println!("{}", n);
        }
        return;
    }
    match ctx.prop.as_str() {
        // the generic "judge on every background" family is the same code for every property that owns instructions
        _ if ctx.family == "background" => mcw::steps::background(&mut ctx),
        "C01" => mcw::c01::run(&mut ctx),
        "C02" => mcw::c02::run(&mut ctx),
        "C03" | "C11" => mcw::c03::run(&mut ctx),
        "C04" => mcw::steps::c04(&mut ctx),
        "C05" => mcw::steps::c05(&mut ctx),
        "C06" => mcw::c06::run(&mut ctx),
        "C07" => mcw::c07::run(&mut ctx),
        "C08" => mcw::c08::run(&mut ctx),
        "C09" => mcw::steps::c09(&mut ctx),
        "C10" => mcw::steps::c10(&mut ctx),
        "C12" | "C13" => mcw::c12::run(&mut ctx),
        "C14" => mcw::c14::run(&mut ctx),
        "C15" => mcw::c15::run(&mut ctx),
        "C16" => mcw::c16::run(&mut ctx),
        "C18" => mcw::c18::run(&mut ctx),
        "C19" => mcw::c19::run(&mut ctx),
        "C20" => mcw::c20::run(&mut ctx),
        "C17" => mcw::c17::run(&mut ctx),
        p => {
            eprintln!("unknown property {}", p);
            std::process::exit(2);
        }
    }
    mcw::inventory::check(&mut ctx);
    ctx.extra.push(("worker_wall_s".to_string(), mcw::core::J::Num(t0.elapsed().as_secs_f64())));
    if let Some(f) = ctx.digests.as_mut() {
        let _ = f.flush();
    }
    if ctx.only.is_none() {
        emit_result(&ctx.result_json().to_string());
    }
}

#[repr(C)]
struct RLimit {
    cur: u64,
    max: u64,
}
extern "C" {
    fn setrlimit(resource: i32, rlim: *const RLimit) -> i32;
}
/// Backstop: an operand-sized allocation must fail inside this process (abort),
/// not exhaust the host. RLIMIT_AS = 9 on Linux.
fn limit_address_space() {
    let gib: u64 = std::env::var("MCW_AS_GIB").ok().and_then(|v| v.parse().ok()).unwrap_or(4);
    let r = RLimit { cur: gib << 30, max: gib << 30 };
    unsafe {
        setrlimit(9, &r as *const RLimit);
        let c = RLimit { cur: 0, max: 0 };
        setrlimit(4, &c as *const RLimit); // RLIMIT_CORE
    }
}
