//! C14 — execution is deterministic and interpreter instances are mutually isolated.
//! Worker families (the loom exploration and the CLI differential are driven by
//! lib/c14.py):
//!   order  — the whole single-step sweep (every instruction x operand product) executed in
//!            forward and then in reverse order in ONE process: every case's outcome must be
//!            the same in both passes (history independence at instruction level) and is
//!            digested per case for the build-profile differential;
//!   pairs  — all ordered pairs (q, p) of a program corpus: p after q (same thread, same
//!            InstructionSet, and a fresh one) equals p alone on a pristine thread;
//!   corpus — prints the corpus with the library's final EXEC/CODE/INT text (CLI differential).

use crate::alpha::{apply, frags, Alpha, Frag};
use crate::core::{guarded, h64, panic_class, Ctx, Real, Verdict};
use crate::foot::foot;
use crate::model::{build, observe, Tree, M};
use crate::treeops::trees_up_to;
use pushr::push::interpreter::PushInterpreter;
use pushr::push::parser::PushParser;
use pushr::push::state::PushState;

fn excluded(name: &str) -> bool {
    // RAND instructions are outside the property; EXEC.CMD talks to the host; instructions that expose
    // graph node identifiers (or print them, in HashMap iteration order) are excluded by the statement
    foot(name).map(|f| f.random).unwrap_or(true)
        || matches!(
            name,
            "GRAPH.NODES" | "GRAPH.NODES*HISTORY" | "GRAPH.NODE*PREDECESSORS" | "GRAPH.NODE*SUCCESSORS" | "GRAPH.NODE*NEIGHBORS" | "GRAPH.PRINT" | "GRAPH.PRINT*DIFF" | "GRAPH.NODE*ADD"
        )
}

/// all sweep cases, materialised as (instruction, state) in a fixed order
fn sweep_cases(real: &Real, thorough: bool) -> Vec<(String, M)> {
    let mut alpha = Alpha::boundary(false);
    alpha.deep = false;
    let mut out = vec![];
    for name in real.names() {
        if excluded(&name) {
            continue;
        }
        let ft = foot(&name).unwrap();
        let mut a = alpha.clone();
        if crate::alpha::size_like(&name) {
            // sizes that share a hypercube edge length / allocation class: one input per shortcut
            a.ints = vec![-1, 0, 1, 2, 4, 5, 7, 9, 27];
            a.floats = vec![0.0, 1.0, 1.5, 2.0];
        }
        let comps: Vec<(crate::model::Comp, usize)> = ft.ops.iter().map(|(c, n)| (*c, if *n == 0 { 2 } else { *n })).collect();
        let mut lists: Vec<Vec<Frag>> = comps.iter().map(|(c, n)| frags(*c, *n, &a)).collect();
        // cap the product per instruction (deterministically: thin out the longest lists)
        let cap = if thorough { 30_000 } else { 4_000 };
        loop {
            let size = lists.iter().fold(1usize, |acc, l| acc.saturating_mul(l.len().max(1)));
            if size <= cap {
                break;
            }
            let (k, _) = lists.iter().enumerate().max_by_key(|(_, l)| l.len()).unwrap();
            let l = &mut lists[k];
            let keep: Vec<Frag> = l.iter().step_by(2).cloned().collect();
            *l = keep;
        }
        if lists.iter().any(|l| l.is_empty()) {
            continue;
        }
        let mut idx = vec![0usize; lists.len()];
        'prod: loop {
            let mut m = M::default();
            for (k, i) in idx.iter().enumerate() {
                apply(&mut m, &lists[k][*i]);
            }
            out.push((name.clone(), m));
            let mut k = lists.len();
            loop {
                if k == 0 {
                    break 'prod;
                }
                k -= 1;
                idx[k] += 1;
                if idx[k] < lists[k].len() {
                    break;
                }
                idx[k] = 0;
            }
        }
    }
    out
}

/// the same cases as `order`, executed once, last case first, in a process of its own: the
/// supervisor compares the per-case digests with those of the forward run (a cache that is filled
/// once and never corrected gives the same answer twice within one process, but not across orders)
pub fn order_rev(ctx: &mut Ctx) {
    let mut real = Real::new();
    let cases = sweep_cases(&real, ctx.tier_thorough);
    for (k, (name, m)) in cases.iter().enumerate().rev() {
        let id = k as u64;
        ctx.transitions += 1;
        ctx.states += 1;
        let out = crate::core::step_once(&mut real, &crate::core::with_instr(m, name));
        let okey = out.key();
        if ctx.only.is_none() || ctx.only == Some(id) {
            ctx.record(id, &format!("{}|{}", name, okey), Verdict::Pass, || format!("{} on {{{}}} (reverse-first process)", name, m.key()));
        }
    }
    ctx.next_id = cases.len() as u64;
}

pub fn order(ctx: &mut Ctx) {
    let mut real = Real::new();
    let cases = sweep_cases(&real, ctx.tier_thorough);
    ctx.extra.push(("sweep_cases".into(), crate::core::J::Int(cases.len() as i64)));
    // pass 1: forward
    let mut first: Vec<u64> = Vec::with_capacity(cases.len());
    for (name, m) in &cases {
        let out = crate::core::step_once(&mut real, &crate::core::with_instr(m, name));
        first.push(h64(&out.key()));
    }
    // pass 2: reverse order, same process, same InstructionSet
    for (k, (name, m)) in cases.iter().enumerate().rev() {
        let id = k as u64;
        ctx.next_id = id + 1;
        ctx.transitions += 1;
        ctx.states += 1;
        let out = crate::core::step_once(&mut real, &crate::core::with_instr(m, name));
        let okey = out.key();
        let v = if h64(&okey) == first[k] {
            Verdict::Pass
        } else {
            Verdict::fail(name, "history-dependent", format!("the same step gave a different result when executed in reverse sweep order: now {{{}}}", crate::core::trunc(&okey, 600)))
        };
        if ctx.only.is_none() || ctx.only == Some(id) {
            ctx.nontrivial_mark(&okey);
            ctx.record(id, &format!("{}|{}", name, okey), v, || format!("{} on {{{}}} (forward pass vs reverse pass)", name, m.key()));
        }
    }
    ctx.next_id = cases.len() as u64;
}

/// carry — the observable state determines the behaviour: for every ordered pair (a, b) of RAND-free,
/// id-free instructions, executing b right after a on the LIVE state object gives the same result as
/// executing b on a state REBUILT from what a left behind (every stack, queue, graph, binding, flag and the
/// configuration). Anything an instruction leaves behind outside the observable state (a cached cursor, a
/// stale buffer cell, a flag in a side structure) and that a later instruction picks up shows here.
pub fn carry(ctx: &mut Ctx) {
    let mut real = Real::new();
    let names: Vec<String> = real.names().into_iter().filter(|n| !excluded(n) && n != "EXEC.CMD").collect();
    let mut b2 = crate::alpha::populated();
    b2.i = vec![1, 2, 0, 3, 2];
    b2.f = vec![0.5, 2.0, -1.5];
    b2.c = vec![Tree::L(vec![Tree::B(true), Tree::I(10), Tree::F(0.5)]), Tree::L(vec![Tree::I(1), Tree::L(vec![Tree::I(2), Tree::I(3)])]), Tree::I(1), Tree::L(vec![])];
    let bases = vec![("populated", crate::alpha::populated()), ("populated-small-ints", b2)];
    ctx.extra.push(("instructions".into(), crate::core::J::Int(names.len() as i64)));
    for (bl, base) in &bases {
        for a in &names {
            for b in &names {
                let id = match ctx.take() {
                    Some(id) => id,
                    None => continue,
                };
                ctx.transitions += 2;
                ctx.states += 1;
                let mut m0 = base.clone();
                m0.e.insert(0, Tree::Ins(b.clone()));
                m0.e.insert(0, Tree::Ins(a.clone()));
                let prefix = a.split('.').next().unwrap_or("");
                let third: Vec<String> = if ctx.tier_thorough { names.iter().filter(|n| n.split('.').next() == Some(prefix)).cloned().collect() } else { vec![a.clone()] };
                let Real { iset, icache } = &mut real;
                let r = guarded(|| {
                    let horizon = crate::core::DRAW_HORIZON.load(std::sync::atomic::Ordering::Relaxed);
                    let mut st = build(&m0);
                    pushr::push::graph::verif_set_node_counter(crate::refmodel::next_node_id());
                    pushr::push::verif::install_clock(0);
                    pushr::push::verif::install_script(vec![], horizon);
                    PushInterpreter::step(&mut st, iset, icache);
                    let mid = observe(&st);
                    let counter = pushr::push::graph::verif_node_counter();
                    pushr::push::verif::install_script(vec![], horizon);
                    PushInterpreter::step(&mut st, iset, icache);
                    let live = observe(&st);
                    // the same second step on a state rebuilt from the observation
                    let mut st2 = build(&mid);
                    pushr::push::graph::verif_set_node_counter(counter);
                    pushr::push::verif::install_script(vec![], horizon);
                    PushInterpreter::step(&mut st2, iset, icache);
                    let rebuilt = observe(&st2);
                    // third step(s): a again (what a left behind, b changed, a reads again), in the thorough tier
                    // also every instruction of a's stack type -- on the live object and on a state rebuilt from
                    // what the live object shows after b
                    let counter2 = pushr::push::graph::verif_node_counter();
                    let mut thirds: Vec<(String, M, M)> = vec![];
                    if live.key() == rebuilt.key() {
                        for c in third.iter() {
                            let mut after_b = live.clone();
                            after_b.e.insert(0, Tree::Ins(c.clone()));
                            // live: the object that has seen a and b (cloning is not possible: replay a, b on a fresh object)
                            let mut st3 = build(&m0);
                            pushr::push::graph::verif_set_node_counter(crate::refmodel::next_node_id());
                            pushr::push::verif::install_script(vec![], horizon);
                            PushInterpreter::step(&mut st3, iset, icache);
                            pushr::push::verif::install_script(vec![], horizon);
                            PushInterpreter::step(&mut st3, iset, icache);
                            st3.exec_stack.push(crate::model::item_of(&Tree::Ins(c.clone())));
                            pushr::push::verif::install_script(vec![], horizon);
                            PushInterpreter::step(&mut st3, iset, icache);
                            let l3 = observe(&st3);
                            let mut st4 = build(&after_b);
                            pushr::push::graph::verif_set_node_counter(counter2);
                            pushr::push::verif::install_script(vec![], horizon);
                            PushInterpreter::step(&mut st4, iset, icache);
                            thirds.push((c.clone(), l3, observe(&st4)));
                        }
                    }
                    (mid, live, rebuilt, thirds)
                });
                pushr::push::verif::clear_script();
                pushr::push::verif::clear_clock();
                let (okey, v) = match r {
                    // a crash is C01's business
                    Err(p) => (format!("PANIC {}", panic_class(&p)), Verdict::Pass),
                    Ok((mid, live, rebuilt, thirds)) => {
                        let lk = live.key();
                        if lk == rebuilt.key() {
                            match thirds.iter().find(|(_, l, r)| l.key() != r.key()) {
                                None => (format!("{}|{}|{}", a, b, h64(&lk)), Verdict::Pass),
                                Some((c, l, r)) => (
                                    format!("{}|{}|{}|differs", a, b, c),
                                    Verdict::fail(c, "depends-on-unobservable-state", format!("after {} and {} the state is {{{}}}; {} executed on the live object changes {:?}, on an equal rebuilt state {:?}", a, b, crate::core::trunc(&live.key(), 400), c, live.diff(l), live.diff(r))),
                                ),
                            }
                        } else {
                            (
                                format!("{}|{}|differs", a, b),
                                Verdict::fail(b, "depends-on-unobservable-state", format!("after {} the state is {{{}}}; {} executed on the live object changes {:?}, on an equal rebuilt state {:?}", a, crate::core::trunc(&mid.key(), 400), b, mid.diff(&live), mid.diff(&rebuilt))),
                            )
                        }
                    }
                };
                ctx.nontrivial_mark(&okey);
                ctx.record(id, &okey, v, || format!("{} then {} on the {} base", a, b, bl));
            }
        }
    }
}

/// memo -- results are not remembered across steps: for ordered pairs (x, y) of instructions and every
/// assignment of two operand states a, b (same shape and the same INTEGER stack, every other value
/// different) to the three steps x, y, x executed on ONE live state object -- whose visible content is set
/// through the containers' own operations before each step -- the third step gives what x gives on a freshly
/// built state of the same content. A value remembered from the first step (keyed by operands, sizes,
/// addresses, ...) and not invalidated by y shows here.
pub fn memo(ctx: &mut Ctx) {
    let mut real = Real::new();
    let names: Vec<String> = real.names().into_iter().filter(|n| !excluded(n) && n != "EXEC.CMD").collect();
    let mut a = crate::alpha::populated();
    a.i = vec![1, 2, 0, 3, 2];
    a.f = vec![0.5, 2.0, -1.5];
    a.c = vec![Tree::L(vec![Tree::B(true), Tree::I(10), Tree::F(0.5)]), Tree::L(vec![Tree::I(1), Tree::L(vec![Tree::I(2), Tree::I(3)])]), Tree::I(1), Tree::L(vec![])];
    // b: same shapes, same INTEGER stack, other values
    let mut b = a.clone();
    b.b = a.b.iter().map(|x| !x).collect();
    b.f = vec![2.0, 0.25, 3.5];
    b.n = vec!["M1".into(), "M2".into(), "M3".into()];
    b.c = vec![Tree::L(vec![Tree::B(false), Tree::I(42), Tree::F(7.5)]), Tree::L(vec![Tree::I(5), Tree::L(vec![Tree::I(6), Tree::I(7)])]), Tree::I(9), Tree::L(vec![])];
    b.e = vec![Tree::I(91), Tree::L(vec![Tree::I(92)]), Tree::ins("NOOP"), Tree::name("M8")];
    b.bv = a.bv.iter().map(|v| v.iter().map(|x| !x).collect()).collect();
    b.iv = a.iv.iter().map(|v| v.iter().map(|x| x + 100).collect()).collect();
    b.fv = a.fv.iter().map(|v| v.iter().map(|x| x + 100.0).collect()).collect();
    b.bindings.clear();
    b.bindings.insert("BOUND1".into(), Tree::I(55));
    b.bindings.insert("BOUND2".into(), Tree::L(vec![Tree::I(66)]));
    // three INTEGER stacks (indices and positions that address different items), the same in a and b
    let int_variants: Vec<Vec<i32>> = vec![vec![1, 2, 0, 3, 2], vec![0, 1, 2, 0, 3], vec![0, 0, 1, 1, 2]];
    for ints in int_variants {
    a.i = ints.clone();
    b.i = ints.clone();
    let states = [a.clone(), b.clone()];
    // fresh answers: x on a freshly built state of content a / b
    let patterns: [[usize; 3]; 6] = [[0, 0, 1], [0, 1, 1], [0, 1, 0], [1, 0, 0], [1, 1, 0], [1, 0, 1]];
    ctx.extra.push(("instructions".into(), crate::core::J::Int(names.len() as i64)));
    for x in &names {
        let px = x.split('.').next().unwrap_or("");
        let fresh: Vec<crate::core::Outcome> = states.iter().map(|s| crate::core::step_once(&mut real, &crate::core::with_instr(s, x))).collect();
        for y in &names {
            if !ctx.tier_thorough && y.split('.').next() != Some(px) {
                continue;
            }
            let id = match ctx.take() {
                Some(id) => id,
                None => continue,
            };
            ctx.transitions += 3 * patterns.len() as u64;
            ctx.states += 1;
            let mut problem: Option<String> = None;
            for pat in patterns.iter() {
                let Real { iset, icache } = &mut real;
                let r = guarded(|| {
                    let horizon = crate::core::DRAW_HORIZON.load(std::sync::atomic::Ordering::Relaxed);
                    let mut st = PushState::new();
                    pushr::push::verif::install_clock(0);
                    for (k, ins) in [x, y, x].iter().enumerate() {
                        crate::model::set_live(&mut st, &states[pat[k]]);
                        st.exec_stack.push(crate::model::item_of(&Tree::Ins((*ins).clone())));
                        pushr::push::graph::verif_set_node_counter(crate::refmodel::next_node_id());
                        pushr::push::verif::install_script(vec![], horizon);
                        PushInterpreter::step(&mut st, iset, icache);
                    }
                    observe(&st)
                });
                pushr::push::verif::clear_script();
                pushr::push::verif::clear_clock();
                match (&r, &fresh[pat[2]]) {
                    (Ok(l), crate::core::Outcome::Ok(f)) => {
                        if l.key() != f.key() {
                            problem = Some(format!("{} on content {} after {} on content {} and {} on content {} (one live state) changes {:?}; on a freshly built state of the same content it changes {:?}", x, pat[2], x, pat[0], y, pat[1], states[pat[2]].diff(l), states[pat[2]].diff(f)));
                            break;
                        }
                    }
                    // crashes are C01's business
                    _ => {}
                }
            }
            let okey = format!("{}|{}|{}", x, y, problem.is_some());
            let v = match problem {
                None => Verdict::Pass,
                Some(p) => Verdict::fail(x, "remembers-an-earlier-step", p),
            };
            ctx.nontrivial_mark(&okey);
            ctx.record(id, &okey, v, || format!("{} , {} , {} on one live state over operand contents a/b (INTEGER stack {:?})", x, y, x, ints));
        }
    }
    }
}

// ---------------------------------------------------------------------------
// program corpus (RAND-free, id-free)

pub fn corpus(thorough: bool) -> Vec<Tree> {
    let mut v: Vec<Tree> = vec![];
    // control programs: all trees up to S points over a control alphabet
    let atoms = vec![
        Tree::I(1),
        Tree::I(3),
        Tree::B(true),
        Tree::name("A"),
        Tree::ins("EXEC.DUP"),
        Tree::ins("INTEGER.+"),
        Tree::ins("CODE.QUOTE"),
        Tree::ins("INTEGER.DEFINE"),
        Tree::ins("INTEGER.STACKDEPTH"),
    ];
    v.extend(trees_up_to(if thorough { 4 } else { 3 }, &atoms));
    // the loop programs of C06
    let p = || Tree::L(vec![Tree::ins("INDEX.CURRENT"), Tree::ins("INTEGER.+")]);
    for n in 0..=3 {
        v.push(Tree::L(vec![Tree::I(0), Tree::I(n), Tree::ins("INDEX.DEFINE"), Tree::ins("EXEC.LOOP"), p()]));
        v.push(Tree::L(vec![Tree::I(0), Tree::IV((1..=n).collect()), Tree::ins("INTVECTOR.LOOP"), Tree::L(vec![Tree::ins("INTEGER.+")])]));
    }
    // names and code manipulation
    v.push(Tree::L(vec![Tree::I(7), Tree::name("X"), Tree::ins("INTEGER.DEFINE"), Tree::name("X"), Tree::name("X"), Tree::ins("INTEGER.+")]));
    v.push(Tree::L(vec![Tree::ins("CODE.QUOTE"), Tree::L(vec![Tree::I(1), Tree::L(vec![Tree::I(2)])]), Tree::ins("CODE.DUP"), Tree::ins("CODE.LIST"), Tree::ins("CODE.SIZE")]));
    v.push(Tree::L(vec![Tree::I(4), Tree::ins("CODE.QUOTE"), Tree::L(vec![Tree::ins("INTEGER.POP"), Tree::I(1)]), Tree::ins("CODE.QUOTE"), Tree::L(vec![Tree::ins("CODE.DUP"), Tree::ins("INTEGER.DUP"), Tree::I(1), Tree::ins("INTEGER.-"), Tree::ins("CODE.DO"), Tree::ins("INTEGER.*")]), Tree::ins("INTEGER.DUP"), Tree::I(2), Tree::ins("INTEGER.<"), Tree::ins("CODE.IF")]));
    // vectors, records and neighbourhoods (sizes that share a hypercube edge: 5, 7, 9 in two dimensions)
    for size in [5, 7, 9] {
        v.push(Tree::L(vec![Tree::F(1.0), Tree::I(2), Tree::I(4), Tree::I(size), Tree::ins("LIST.NEIGHBOR*IDS"), Tree::ins("INTVECTOR.SUM")]));
    }
    // ... and sizes / dimensions with different edge lengths (A, B, A histories arise among the ordered pairs)
    for (size, dim) in [(16, 2), (16, 1), (27, 3)] {
        v.push(Tree::L(vec![Tree::F(1.0), Tree::I(dim), Tree::I(4), Tree::I(size), Tree::ins("LIST.NEIGHBOR*IDS"), Tree::ins("INTVECTOR.SUM")]));
    }
    v.push(Tree::L(vec![Tree::IV(vec![1, 2, 3]), Tree::IV(vec![10, 20]), Tree::I(1), Tree::ins("INTVECTOR.+"), Tree::ins("INTVECTOR.SUM")]));
    v.push(Tree::L(vec![Tree::B(true), Tree::I(5), Tree::IV(vec![9, 1]), Tree::ins("LIST.ADD"), Tree::I(0), Tree::ins("LIST.GET")]));
    v.push(Tree::L(vec![Tree::BV(vec![true, false]), Tree::IV(vec![1]), Tree::ins("OUTPUT.WRITE"), Tree::ins("OUTPUT.STACKDEPTH")]));
    v.push(Tree::L(vec![Tree::I(3), Tree::ins("INTVECTOR.ONES"), Tree::ins("INTVECTOR.DUP"), Tree::I(0), Tree::ins("INTVECTOR.+"), Tree::ins("INTVECTOR.SUM")]));
    v
}

/// programs above the size thresholds of the configuration (100 points, 25 points) that still terminate quickly
pub fn corpus_big() -> Vec<Tree> {
    let mut v = vec![];
    // programs that take wall-clock time inside the default time budget (EXEC.CMD waits one second): 1 s and 4 s of 5 s
    v.push(Tree::L(vec![Tree::I(7), Tree::name("A"), Tree::I(0), Tree::ins("EXEC.CMD"), Tree::I(8)]));
    v.push(Tree::L((0..4).flat_map(|k| vec![Tree::name("A"), Tree::I(0), Tree::ins("EXEC.CMD"), Tree::I(k)]).collect()));
    for n in [26usize, 99, 100, 101, 120, 300] {
        let mut items: Vec<Tree> = (0..n).map(|k| Tree::I(k as i32)).collect();
        items.push(Tree::ins("INTEGER.+"));
        v.push(Tree::L(items));
        if n == 300 {
            // two sublists of 300: the state grows by 299 twice (each below the default growth cap of 500)
            v.push(Tree::L(vec![Tree::L((0..300).map(|_| Tree::I(1)).collect()), Tree::L((0..300).map(|_| Tree::I(2)).collect())]));
        }
        v.push(Tree::L((0..n).map(|k| if k % 7 == 3 { Tree::L(vec![Tree::I(k as i32), Tree::ins("INTEGER.DUP")]) } else { Tree::ins("NOOP") }).collect()));
    }
    v
}

fn run_program(real: &mut Real, prog: &Tree, fresh_iset: bool) -> Result<String, String> {
    let mut fresh;
    let r: &mut Real = if fresh_iset {
        fresh = Real::new();
        &mut fresh
    } else {
        real
    };
    let Real { iset, .. } = r;
    let text = prog.render();
    let res = guarded(|| {
        let mut st = PushState::new();
        pushr::push::verif::install_clock(0);
        st.configuration.eval_push_limit = 300;
        PushParser::parse_program(&mut st, iset, &text);
        let outcome = PushInterpreter::run(&mut st, iset);
        format!("{:?}|{}", outcome, observe(&st).key())
    });
    pushr::push::verif::clear_clock();
    res
}

pub fn pairs(ctx: &mut Ctx) {
    let mut real = Real::new();
    let progs = corpus(ctx.tier_thorough);
    ctx.extra.push(("corpus".into(), crate::core::J::Int(progs.len() as i64)));
    // baseline: each program alone, on a pristine thread with a fresh InstructionSet
    let mut base: Vec<String> = vec![];
    for p in &progs {
        let p2 = p.clone();
        let r = std::thread::spawn(move || {
            crate::core::install_panic_hook();
            let mut fresh = Real::new();
            run_program(&mut fresh, &p2, false)
        })
        .join()
        .unwrap_or_else(|_| Err("thread panicked".into()));
        base.push(match r {
            Ok(s) => s,
            Err(p) => format!("PANIC {}", panic_class(&p)),
        });
    }
    // a panicking corpus program is C01's business; here only determinism matters
    let npairs = progs.len() * progs.len();
    for qi in 0..progs.len() {
        // sharded by q, so that every p runs after this q in the same worker thread
        let mine = qi % ctx.nshards == ctx.shard;
        for pi in 0..progs.len() {
            let id = ctx.next_id;
            ctx.next_id += 1;
            ctx.mark_case(id);
            // a replay re-executes the shard's history up to the requested pair and records only that one
            if !mine || ctx.only.map(|o| id > o).unwrap_or(false) {
                continue;
            }
            let rec = ctx.only.map(|o| o == id).unwrap_or(true);
            if rec {
                ctx.transitions += 1;
                ctx.states += 1;
            }
            let mut problems = vec![];
            for fresh in [false, true] {
                let first = match run_program(&mut real, &progs[qi], fresh) {
                    Ok(s) => s,
                    Err(p) => format!("PANIC {}", panic_class(&p)),
                };
                if first != base[qi] {
                    problems.push(format!("{} gives {} here but alone on a pristine thread {}", progs[qi].render(), crate::core::trunc(&first, 300), crate::core::trunc(&base[qi], 300)));
                }
                let after = match run_program(&mut real, &progs[pi], fresh) {
                    Ok(s) => s,
                    Err(p) => format!("PANIC {}", panic_class(&p)),
                };
                if after != base[pi] {
                    problems.push(format!("after running {} first ({} InstructionSet) the result is {} but alone it is {}", progs[qi].render(), if fresh { "fresh" } else { "shared" }, crate::core::trunc(&after, 400), crate::core::trunc(&base[pi], 400)));
                }
            }
            let v = if problems.is_empty() { Verdict::Pass } else { Verdict::fail("history-independence", "depends-on-earlier-run", problems.join("; ")) };
            let okey = format!("{}|{}", pi, base[pi]);
            if rec {
                ctx.nontrivial_mark(&okey);
            }
            ctx.record_if(rec, id, &okey, v, || format!("p = {} after q = {} (and after the earlier pairs of this worker)", progs[pi].render(), progs[qi].render()));
        }
    }
    let _ = npairs;
    // replay: twice on fresh states in this (by now well-used) process
    for (pi, p) in progs.iter().enumerate() {
        let id = match ctx.take() {
            Some(id) => id,
            None => continue,
        };
        ctx.transitions += 1;
        let a = run_program(&mut real, p, false).unwrap_or_else(|e| format!("PANIC {}", panic_class(&e)));
        let b = run_program(&mut real, p, false).unwrap_or_else(|e| format!("PANIC {}", panic_class(&e)));
        let v = if a == b && a == base[pi] { Verdict::Pass } else { Verdict::fail("replay", "nondeterministic", format!("{} vs {} vs baseline {}", crate::core::trunc(&a, 300), crate::core::trunc(&b, 300), crate::core::trunc(&base[pi], 300))) };
        ctx.record(id, &format!("replay|{}", a), v, || format!("replay {}", p.render()));
    }
}

/// prints "PROGRAM <text>\nEXPECT <exec>|<code>|<int>" for every terminating corpus program
pub fn clidump(ctx: &mut Ctx) {
    let mut real = Real::new();
    let mut progs = corpus(ctx.tier_thorough);
    progs.extend(corpus_big());
    let Real { iset, icache } = &mut real;
    for p in &progs {
        let text = p.render();
        if text.contains("BIN") {
            continue;
        }
        let r = guarded(|| {
            let mut st = PushState::new();
            PushParser::parse_program(&mut st, iset, &text);
            // the library's loader (the one PushInterpreter::run uses), not the front end's
            PushInterpreter::copy_to_code_stack(&mut st);
            // is the program inside every documented budget of the default configuration? (decided by an
            // accounting of single steps on a copy: < 1000 steps, no single step grows the state by more than 500)
            let mut probe = PushState::new();
            PushParser::parse_program(&mut probe, iset, &text);
            PushInterpreter::copy_to_code_stack(&mut probe);
            let mut steps = 0;
            let mut done = false;
            let mut in_budget = true;
            while steps < 1000 {
                let before = probe.size();
                if PushInterpreter::step(&mut probe, iset, icache) {
                    done = true;
                    break;
                }
                if probe.size() > before + 500 {
                    in_budget = false;
                }
                steps += 1;
            }
            // the library's answer: PushInterpreter::run under the default limits (virtual clock: no time passes)
            pushr::push::verif::install_clock(0);
            st.code_stack.flush();
            let outcome = PushInterpreter::run(&mut st, iset);
            pushr::push::verif::clear_clock();
            (done && in_budget && steps < 990, format!("{:?}", outcome), st.exec_stack.to_string(), st.code_stack.to_string(), st.int_stack.to_string())
        });
        if let Ok((true, outcome, e, c, i)) = r {
            // an in-budget program that the library does not run to completion differs from the front end (which
            // has no limits) by definition: reported through the EXEC column
            let e = if outcome == "NoErrors" { e } else { format!("<library run stopped with {}> {}", outcome, e) };
            // single-line fields only (the CLI prints one line per stack)
            if !e.contains('\n') && !c.contains('\n') && !i.contains('\n') {
                println!("CLICASE\t{}\t{}\t{}\t{}", text, e, c, i);
            }
        }
        ctx.cases += 1;
    }
    let _ = build;
}

/// solo — every corpus program (the large ones included) alone through `PushInterpreter::run` under four
/// configurations (default limits, growth cap 5, growth cap 0, step limit 20), twice; the two runs must
/// agree, and the outcome (run result + full final state) is digested per case: the supervisor compares the
/// digests of the overflow-checking and of the release build (the build-profile clause on whole runs, where
/// `order` decides it on single steps).
pub fn solo(ctx: &mut Ctx) {
    let mut real = Real::new();
    let mut progs = corpus(ctx.tier_thorough);
    progs.extend(corpus_big().into_iter().filter(|p| !p.render().contains("EXEC.CMD")));
    ctx.extra.push(("corpus".into(), crate::core::J::Int(progs.len() as i64)));
    let cfgs: [(&str, Option<i32>, Option<i32>); 4] = [("default", None, None), ("growth_cap=5", Some(5), None), ("growth_cap=0", Some(0), None), ("eval_push_limit=20", None, Some(20))];
    for p in &progs {
        let text = p.render();
        for (label, cap, limit) in cfgs.iter() {
            let id = match ctx.take() {
                Some(id) => id,
                None => continue,
            };
            ctx.transitions += 2;
            ctx.states += 1;
            let Real { iset, .. } = &mut real;
            let mut once = || {
                let r = guarded(|| {
                    let mut st = PushState::new();
                    pushr::push::verif::install_clock(0);
                    if let Some(c) = cap {
                        st.configuration.growth_cap = *c as _;
                    }
                    if let Some(l) = limit {
                        st.configuration.eval_push_limit = *l;
                    }
                    PushParser::parse_program(&mut st, iset, &text);
                    let outcome = PushInterpreter::run(&mut st, iset);
                    format!("{:?}|{}", outcome, observe(&st).key())
                });
                pushr::push::verif::clear_clock();
                r.unwrap_or_else(|e| format!("PANIC {}", panic_class(&e)))
            };
            let a = once();
            let b = once();
            let v = if a == b { Verdict::Pass } else { Verdict::fail("solo", "nondeterministic", format!("{} then {}", crate::core::trunc(&a, 300), crate::core::trunc(&b, 300))) };
            let okey = format!("{}|{}|{}", label, crate::core::trunc(&text, 80), a);
            ctx.nontrivial_mark(&okey);
            ctx.record(id, &okey, v, || format!("{} under {}", crate::core::trunc(&text, 300), label));
        }
    }
}

pub fn run(ctx: &mut Ctx) {
    match ctx.family.as_str() {
        "order" => order(ctx),
        "solo" => solo(ctx),
        "orderrev" => order_rev(ctx),
        "pairs" => pairs(ctx),
        "carry" => carry(ctx),
        "memo" => memo(ctx),
        "clidump" => clidump(ctx),
        f => panic!("unknown family {}", f),
    }
}
