//! Single-step families: C01 (step sweep), C04 (scalars), C05 (stack
//! manipulation), C09 (vectors), C10 (missing operands / confinement).

use crate::alpha::{Alpha, IMAX, IMIN};
use crate::core::{step_once, with_instr, Ctx, Outcome, Real, Verdict};
use crate::foot::STACK_TYPES;
use crate::model::{Comp, Tree, M};
use crate::refmodel;
use crate::sweep::{self, Oracle, Sweep};

pub fn scalar_names(all: &[String]) -> Vec<String> {
    let stackops = ["DUP", "POP", "SWAP", "ROT", "YANK", "YANKDUP", "SHOVE", "FLUSH", "STACKDEPTH", "ID", "DEFINE", "RAND", "RANDBOUNDNAME", "QUOTE", "SEND"];
    all.iter()
        .filter(|n| {
            let (p, op) = n.split_once('.').unwrap_or((n.as_str(), ""));
            (matches!(p, "BOOLEAN" | "INTEGER" | "FLOAT") && !stackops.contains(&op)) || matches!(n.as_str(), "NAME.=" | "NAME.CAT" | "CODE.FROMBOOLEAN" | "CODE.FROMFLOAT" | "CODE.FROMINTEGER" | "CODE.FROMNAME")
        })
        .cloned()
        .collect()
}

pub fn vector_names(all: &[String]) -> Vec<String> {
    let skip = ["DUP", "POP", "SWAP", "ROT", "YANK", "YANKDUP", "SHOVE", "FLUSH", "STACKDEPTH", "ID", "DEFINE", "RAND", "LOOP"];
    all.iter()
        .filter(|n| {
            let (p, op) = n.split_once('.').unwrap_or((n.as_str(), ""));
            matches!(p, "BOOLVECTOR" | "INTVECTOR" | "FLOATVECTOR") && !skip.contains(&op)
        })
        .cloned()
        .collect()
}

pub fn c04(ctx: &mut Ctx) {
    let mut real = Real::new();
    let names = scalar_names(&real.names());
    let sw = Sweep {
        names,
        alpha: Alpha::boundary(ctx.tier_thorough),
        reduced: Alpha::tiny(),
        cap_per_instr: 200_000,
        missing: false,
        only_missing: false,
        populated_too: true,
        oracle: Oracle::Judge,
    };
    sweep::run(ctx, &mut real, &sw);
    // dense interior: every pair of a contiguous integer range and of a quarter-step float grid (relations
    // between operands such as a == 2b, equal non-zero operands, odd/even and sign combinations, fractional
    // parts below/at/above one half), plus a few values that are neither tiny nor boundaries
    let mut dense = Alpha::tiny();
    dense.ints = (-20..=20).collect();
    dense.ints.extend([100, -100, 255, 256, 1000, -1000, 12345, 46340, 46341, 65535, 65536, -65537, 1_000_000]);
    dense.floats = (-12..=12).map(|k| k as f32 / 4.0).collect();
    dense.floats.extend([0.1, 0.7, 1.6, -1.6, 2.75, 7.5, 1000.5, -1000.5, 0.001, 12345.678, 1e6]);
    dense.floats.extend(crate::alpha::near_floats());
    dense.floats.extend([1000.0, 1000.00006, 2.54, 7.25, 7.3]);
    dense.bools = vec![true, false];
    dense.names = crate::alpha::names();
    dense.deep = false;
    let names = scalar_names(&real.names());
    let dn = Sweep { names, alpha: dense, reduced: Alpha::tiny(), cap_per_instr: 200_000, missing: false, only_missing: false, populated_too: false, oracle: Oracle::Judge };
    sweep::run(ctx, &mut real, &dn);
    // very deep stacks (a result pushed onto a stack that already holds 2^8 / 2^16 items, operands taken from one):
    // every scalar stack holds D items, the top ones are ordinary operands
    for d in [255usize, 256, 257, 65_535, 65_536, 65_537] {
        let mut base = M::default();
        base.b = (0..d).map(|k| k % 3 == 0).collect();
        base.i = (0..d).map(|k| if k < 4 { [7, 2, -3, 5][k] } else { k as i32 }).collect();
        base.f = (0..d).map(|k| if k < 4 { [2.5, 0.5, -1.5, 4.0][k] } else { k as f32 }).collect();
        base.n = (0..d).map(|k| format!("n{}", k)).collect();
        base.c = vec![Tree::I(1)];
        for name in scalar_names(&real.names()) {
            let id = match ctx.take() {
                Some(id) => id,
                None => continue,
            };
            ctx.transitions += 1;
            ctx.states += 1;
            let out = step_once(&mut real, &with_instr(&base, &name));
            let v = crate::refmodel::judge(&name, &base, &out);
            let okey = format!("deep{}|{}|{}", d, name, crate::core::h64(&out.key()));
            ctx.nontrivial_mark(&okey);
            ctx.record(id, &okey, v, || format!("{} with {} items on every scalar stack", name, d));
        }
    }
    let names = scalar_names(&real.names());
    let lg = Sweep { names, alpha: Alpha::large(), reduced: Alpha::large_reduced(), cap_per_instr: 20_000, missing: false, only_missing: false, populated_too: false, oracle: Oracle::Judge };
    sweep::run(ctx, &mut real, &lg);
}

pub fn c09(ctx: &mut Ctx) {
    let mut real = Real::new();
    let names = vector_names(&real.names());
    let maxlen = if ctx.tier_thorough { 5 } else { 3 };
    let mut alpha = Alpha::boundary(false);
    alpha.bvs = crate::alpha::bvs_pool(maxlen);
    alpha.ivs = crate::alpha::ivs_pool(maxlen);
    alpha.fvs = crate::alpha::fvs_pool(maxlen);
    alpha.ints = vec![IMIN, -5, -4, -3, -2, -1, 0, 1, 2, 3, 4, 5, IMAX];
    alpha.floats = vec![f32::NEG_INFINITY, -2.5, -0.0, 0.0, 0.5, 1.0, f32::MAX, f32::INFINITY, f32::NAN];
    alpha.deep = false;
    let mut reduced = alpha.clone();
    reduced.bvs = crate::alpha::bvs_pool(2);
    reduced.ivs = crate::alpha::ivs_pool(2);
    reduced.fvs = crate::alpha::fvs_pool(2);
    reduced.floats = vec![-2.5, 0.0, 0.5, f32::INFINITY, f32::NAN];
    reduced.ints = vec![IMIN, -2, -1, 0, 1, 2, 3, IMAX];
    let sw = Sweep { names: names.clone(), alpha: alpha.clone(), reduced, cap_per_instr: if ctx.tier_thorough { 2_000_000 } else { 40_000 }, missing: false, only_missing: false, populated_too: false, oracle: Oracle::Judge };
    sweep::run(ctx, &mut real, &sw);
    // length ladder: a few long vectors (not exhaustive in the large, but every pair of the ladder and every
    // offset around their lengths): chunked or fixed-size processing shows here, not in vectors of length 3
    let lens: &[usize] = if ctx.tier_thorough { &[6, 7, 8, 9, 15, 16, 17, 31, 32, 33, 64, 65] } else { &[6, 7, 8, 9, 16, 17, 33] };
    let mut ladder = alpha.clone();
    ladder.bvs = lens.iter().flat_map(|n| vec![(0..*n).map(|k| k % 3 == 0).collect::<Vec<bool>>(), (0..*n).map(|k| k % 2 == 1 || k == n - 1).collect()]).collect();
    ladder.ivs = lens.iter().flat_map(|n| vec![(0..*n).map(|k| 100 + 7 * k as i32).collect::<Vec<i32>>(), (0..*n).map(|k| if k % 5 == 0 { 0 } else { (k as i32) - 3 }).collect()]).collect();
    ladder.fvs = lens.iter().flat_map(|n| vec![(0..*n).map(|k| 1.5 + k as f32).collect::<Vec<f32>>(), (0..*n).map(|k| if k % 5 == 0 { 0.0 } else { (k as f32) - 3.5 }).collect()]).collect();
    // descending ramps with one NaN (sorting long vectors switches algorithm) and with an infinity
    for n in [21usize, 24, 33, 70] {
        ladder.fvs.push((0..n).map(|k| if k == 4 { f32::NAN } else { (n - k) as f32 }).collect());
        ladder.fvs.push((0..n).map(|k| if k == n / 2 { f32::INFINITY } else if k % 7 == 3 { f32::NAN } else { ((k * 37) % n) as f32 }).collect());
        ladder.ivs.push((0..n).map(|k| ((k * 37) % n) as i32 - 5).collect());
        ladder.bvs.push((0..n).map(|k| (k * 37) % 5 < 2).collect());
    }
    ladder.ints = vec![IMIN, -33, -17, -9, -8, -7, -1, 0, 1, 5, 7, 8, 9, 16, 17, 32, 33, IMAX];
    ladder.floats = vec![0.0, 0.5, -2.5];
    ladder.bools = vec![true, false];
    let sw2 = Sweep { names, alpha: ladder.clone(), reduced: ladder, cap_per_instr: usize::MAX, missing: false, only_missing: false, populated_too: false, oracle: Oracle::Judge };
    sweep::run(ctx, &mut real, &sw2);
}

pub fn c10(ctx: &mut Ctx) {
    let mut real = Real::new();
    let names = real.names();
    match ctx.family.as_str() {
        "missing" => {
            let sw = Sweep { names, alpha: Alpha::boundary(false), reduced: Alpha::tiny(), cap_per_instr: 1, missing: true, only_missing: true, populated_too: true, oracle: Oracle::Confine };
            sweep::run(ctx, &mut real, &sw);
        }
        "fired" => {
            let sw = Sweep {
                names,
                alpha: if ctx.tier_thorough { Alpha::boundary(false) } else { Alpha::tiny() },
                reduced: Alpha::tiny(),
                cap_per_instr: if ctx.tier_thorough { 30_000 } else { 3_000 },
                missing: false,
                only_missing: false,
                populated_too: true,
                oracle: Oracle::Confine,
            };
            sweep::run(ctx, &mut real, &sw);
            let names = real.names();
            let lg = Sweep { names, alpha: Alpha::large(), reduced: Alpha::large_reduced(), cap_per_instr: if ctx.tier_thorough { 20_000 } else { 3_000 }, missing: false, only_missing: false, populated_too: false, oracle: Oracle::Confine };
            sweep::run(ctx, &mut real, &lg);
        }
        f => panic!("unknown family {}", f),
    }
}

/// background — the instructions of ONE property (inventory::relevant) judged by their reference rows on every
/// background the generic sweep knows: everything else empty, everything else populated, and everything populated
/// except one component ("hollow": each of the nine stacks, INDEX, INPUT, OUTPUT, GRAPH, the bindings in turn), plus
/// every operand-missing pattern. The property's own families enumerate its operands deeply on few backgrounds; this
/// family does the opposite, so an instruction whose behaviour depends on a stack it should not look at is decided.
pub fn background(ctx: &mut Ctx) {
    let mut real = Real::new();
    let prop = ctx.prop.clone();
    let names: Vec<String> = real.names().into_iter().filter(|n| crate::inventory::relevant(&prop, n)).collect();
    ctx.extra.push(("instructions".into(), crate::core::J::Int(names.len() as i64)));
    let sw = Sweep {
        names,
        alpha: if ctx.tier_thorough { Alpha::boundary(false) } else { Alpha::tiny() },
        reduced: Alpha::tiny(),
        // the neighbourhood instructions take five operands: their product is thinned harder (C20's own families enumerate them)
        cap_per_instr: if prop == "C20" { 300 } else if ctx.tier_thorough { 30_000 } else { 3_000 },
        missing: true,
        only_missing: false,
        populated_too: true,
        oracle: Oracle::Judge,
    };
    sweep::run(ctx, &mut real, &sw);
}

pub fn c01_step(ctx: &mut Ctx) {
    let mut real = Real::new();
    let names = real.names();
    let sw = Sweep {
        names,
        alpha: Alpha::boundary(ctx.tier_thorough),
        reduced: Alpha::tiny(),
        cap_per_instr: if ctx.tier_thorough { 60_000 } else { 8_000 },
        missing: true,
        only_missing: false,
        populated_too: true,
        oracle: Oracle::NoPanic,
    };
    sweep::run(ctx, &mut real, &sw);
    // the large-instance alphabet (few values, each of them big)
    let names = real.names();
    let lg = Sweep { names, alpha: Alpha::large(), reduced: Alpha::large_reduced(), cap_per_instr: if ctx.tier_thorough { 20_000 } else { 3_000 }, missing: false, only_missing: false, populated_too: false, oracle: Oracle::NoPanic };
    sweep::run(ctx, &mut real, &lg);
}

// ---------------------------------------------------------------------------
// C05: one generic position map for all nine stack types

/// pairwise different code items; those at positions 4j and 4j+1 print alike (floats inside items print
/// with three decimals), 4j+2 is an instruction and 4j+3 a name of the same spelling as far as possible
fn twin_item(k: usize) -> Tree {
    let base = 100.0 + (k / 4) as f32;
    match k % 4 {
        0 => Tree::F(base + 0.0001),
        1 => Tree::F(base + 0.0004),
        2 => Tree::L(vec![Tree::I(100 + k as i32), Tree::F(base + 0.5001)]),
        _ => Tree::L(vec![Tree::I(100 + k as i32 - 1), Tree::F(base + 0.5003)]),
    }
}

fn distinct_items(t: Comp, depth: usize) -> M {
    let mut m = M::default();
    for k in 0..depth {
        match t {
            // only two booleans exist: use an identifiable pattern instead of distinct values
            Comp::B => m.b.push([true, false, false, true, true, false, true][k % 7]),
            Comp::I => m.i.push(100 + k as i32),
            // one item is NaN (unequal to itself)
            Comp::F => m.f.push(if k == 1 { f32::NAN } else { 100.5 + k as f32 }),
            Comp::N => m.n.push(format!("n{}", k)),
            Comp::C => m.c.push(twin_item(k)),
            Comp::E => m.e.push(twin_item(k)),
            Comp::BV => m.bv.push((0..=k).map(|j| j % 2 == 0).collect()),
            Comp::IV => m.iv.push((0..=k).map(|j| j as i32).collect()),
            // neighbours 2j, 2j+1 agree to three decimals (vectors print with {:.3})
            Comp::FV => m.fv.push(if k == 2 { vec![f32::NAN, 1.0] } else { (0..=(k / 2)).map(|j| j as f32 + if k % 2 == 1 && j == 0 { 0.2504 } else if j == 0 { 0.2501 } else { 0.0 }).collect() }),
            _ => unreachable!(),
        }
    }
    m
}

/// the generic rearrangement, on positions: returns for each position of the
/// result the position in the operand stack it comes from (DUP-like ops repeat one)
fn position_map(op: &str, n: usize, idx: Option<i32>) -> Option<Vec<usize>> {
    let id: Vec<usize> = (0..n).collect();
    let c = idx.map(|i| refmodel::clamp(i, n));
    Some(match op {
        "DUP" => {
            if n == 0 {
                id
            } else {
                let mut v = vec![0];
                v.extend(id);
                v
            }
        }
        "POP" => id.into_iter().skip(1).collect(),
        "SWAP" => {
            let mut v = id;
            if n >= 2 {
                v.swap(0, 1);
            }
            v
        }
        "ROT" => {
            let mut v = id;
            if n >= 3 {
                let x = v.remove(2);
                v.insert(0, x);
            }
            v
        }
        "YANK" => {
            let mut v = id;
            if n > 0 {
                let x = v.remove(c?);
                v.insert(0, x);
            }
            v
        }
        "YANKDUP" => {
            let mut v = id;
            if n > 0 {
                v.insert(0, c?);
            }
            v
        }
        "SHOVE" => {
            let mut v = id;
            if n > 0 {
                let x = v.remove(0);
                v.insert(c?, x);
            }
            v
        }
        "FLUSH" => vec![],
        _ => return None,
    })
}

pub fn c05(ctx: &mut Ctx) {
    // twice: containers with little spare capacity, and containers that keep a large allocation (as a stack
    // that was once deep and has been drained does)
    c05_pass(ctx, 5);
    c05_pass(ctx, 1200);
    crate::model::set_spare(5);
}

fn c05_pass(ctx: &mut Ctx, spare: usize) {
    crate::model::set_spare(spare);
    let mut real = Real::new();
    let maxd = if ctx.tier_thorough { 20 } else { 14 };
    let ops = ["DUP", "POP", "SWAP", "ROT", "YANK", "YANKDUP", "SHOVE", "FLUSH", "STACKDEPTH"];
    for (prefix, t, _) in STACK_TYPES.iter() {
        for op in ops.iter() {
            let name = format!("{}.{}", prefix, op);
            if !real.icache.list.contains(&name) {
                // e.g. the vector types have no ROT: nothing to compare
                ctx.sometimes("stack operation not registered for a type");
                continue;
            }
            let indexed = matches!(*op, "YANK" | "YANKDUP" | "SHOVE");
            for depth in 0..=maxd {
                let mut idxs: Vec<Option<i32>> = vec![None];
                if indexed {
                    idxs = vec![None, Some(IMIN), Some(IMAX)];
                    for i in -2..=(depth as i32 + 1) {
                        idxs.push(Some(i));
                    }
                    // beyond the depth by more than one, and in the middle of the range of a 32-bit index
                    idxs.push(Some(depth as i32 + 7));
                    idxs.push(Some(65_536));
                }
                for idx in idxs {
                    for below in [false, true] {
                        // `below`: a second integer under the index (it must stay where it is)
                        if below && (!indexed || idx.is_none() || *t == Comp::I) {
                            continue;
                        }
                        let id = match ctx.take() {
                            Some(id) => id,
                            None => continue,
                        };
                        ctx.transitions += 1;
                        ctx.states += 1;
                        let mut m0 = distinct_items(*t, depth);
                        if let Some(i) = idx {
                            if below {
                                m0.i.insert(0, 77);
                            }
                            m0.i.insert(0, i);
                        }
                        let out = step_once(&mut real, &with_instr(&m0, &name));
                        // expected, by the generic map (the same function for every type)
                        let verdict = match &out {
                            Outcome::Panic(p) => Verdict::fail(&name, &crate::core::panic_class(p), p.clone()),
                            Outcome::Ok(got) => {
                                let mut exp = m0.clone();
                                let mut fired_index = None;
                                if indexed {
                                    if exp.i.is_empty() {
                                        // no index: nothing may happen
                                    } else {
                                        fired_index = Some(exp.i.remove(0));
                                    }
                                }
                                let before_keys = exp.item_keys(*t);
                                let n = before_keys.len();
                                let expected_keys: Vec<String> = if *op == "STACKDEPTH" {
                                    before_keys.clone()
                                } else if indexed && fired_index.is_none() {
                                    before_keys.clone()
                                } else {
                                    position_map(op, n, fired_index).unwrap().into_iter().map(|p| before_keys[p].clone()).collect()
                                };
                                if *op == "STACKDEPTH" {
                                    exp.i.insert(0, n as i32 + if *t == Comp::I { 1 } else { 0 });
                                }
                                let got_keys = got.item_keys(*t);
                                let mut problems = vec![];
                                if *op == "STACKDEPTH" && *t == Comp::I {
                                    if got.i != exp.i {
                                        problems.push(format!("INTEGER is {:?} expected {:?}", got.i, exp.i));
                                    }
                                } else if got_keys != expected_keys {
                                    problems.push(format!("{} is [{}] expected [{}]", prefix, got_keys.join(" "), expected_keys.join(" ")));
                                }
                                // everything else (incl. INTEGER minus the index, plus the depth for STACKDEPTH)
                                for c in crate::model::ALL_COMPS.iter() {
                                    if c == t {
                                        continue;
                                    }
                                    if !exp.comp_eq(got, *c) {
                                        problems.push(format!("{:?} is {} expected {}", c, got.comp_key(*c), exp.comp_key(*c)));
                                    }
                                }
                                // multiset conservation, stated separately
                                if matches!(*op, "SWAP" | "ROT" | "YANK" | "SHOVE") {
                                    let mut a = before_keys.clone();
                                    let mut b = got_keys.clone();
                                    a.sort();
                                    b.sort();
                                    if a != b {
                                        problems.push("not a permutation of the stack".into());
                                    }
                                }
                                if problems.is_empty() {
                                    Verdict::Pass
                                } else if let Some(kid) = crate::known::asis(&name, &m0, &out) {
                                    Verdict::Known(kid)
                                } else {
                                    Verdict::fail(&name, "position-map", problems.join("; "))
                                }
                            }
                        };
                        let okey = format!("{}|{}", name, out.key());
                        if let Outcome::Ok(g) = &out {
                            if !g.diff(&m0).is_empty() {
                                ctx.nontrivial_mark(&okey);
                            }
                        }
                        ctx.record(id, &okey, verdict, || format!("{} depth={} index={:?} state {{{}}}", name, depth, idx, m0.key()));
                    }
                }
            }
        }
    }
}
