"""Which worker families make up each property's check, per tier."""


def fam(name, profiles=("checked",), shards=1, digests=False, extra=None):
    return dict(name=name, profiles=list(profiles), shards=shards, digests=digests, extra=extra or [])


CHECKS = {
    "C16": dict(
        families=lambda tier: [fam("int"), fam("item")],
        rule="explicit-state BFS to fixpoint over PushStack<i32> and PushStack<Item>: every reachable content of bounded size x every public operation x every position in [0,len+2], each compared (return value and contents) with a Vec whose index 0 is the top; non-trivial = transitions that change the container",
        bounds=dict(quick="i32: values {1,2}, size<=5; Item: values {1,( 1 ),( )}, size<=4", thorough="i32: values {1,2,3}, size<=7; Item: 4 values, size<=5"),
        assumptions=["a PushStack has no state besides its element vector (checked: derived Debug shows one field)", "element values outside the alphabet behave like those inside (the container is parametric in T)"],
    ),
    "C17": dict(
        families=lambda tier: [fam("buffer"), fam("io")],
        rule="(a) BFS to a fixpoint on the full internal state (derived Debug: cells incl. stale ones, start, end, len) of PushBuffer<i32> for every capacity and both kinds, all operations and positions in [0,cap+1], against a bounded VecDeque; (b) BFS over INPUT.*/OUTPUT.* instruction histories driven by name through PushInterpreter::step plus fill-to-capacity histories; non-trivial = state-changing transitions",
        bounds=dict(quick="capacity 1..4, values {1,2,9}; io histories to depth 6", thorough="capacity 1..5; io histories to depth 8"),
        assumptions=["values outside the alphabet behave like those inside (the buffer is parametric in T)", "io BFS is depth-bounded (reported as a cap); the buffer BFS is complete for each capacity"],
    ),
}
