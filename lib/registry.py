"""Which worker families make up each property's check, per tier."""


def fam(name, profiles=("checked",), shards=1, digests=False, extra=None, crumbs=False):
    return dict(name=name, profiles=list(profiles), shards=shards, digests=digests, extra=extra or [], crumbs=crumbs)


BOTH = ("checked", "release")

CHECKS = {
    "C01": dict(
        # quick: the BFS runs in the overflow-checking build only (the release build is swept by step/programs); thorough: both
        families=lambda tier: [fam("step", BOTH, shards=8, crumbs=True), fam("bfs", BOTH if tier == "thorough" else ("checked",), shards=16 if tier != "thorough" else 8, crumbs=True), fam("programs", BOTH, shards=4, crumbs=True), fam("generated", ("checked",), crumbs=True)],
        death_is_verdict=True,
        wall_cap=dict(quick=900, thorough=14400),
        rule="(bfs) the interpreter as a transition system from an empty and a fully populated state: before each real step the environment may put one more token on EXEC -- any of the registered instruction names, 24 literals incl. extreme ints, NaN/inf floats, empty and mismatched vectors, quoted and self-re-arming items -- or let pending code run; states de-duplicated on the canonical snapshot; (programs) every token tree up to 3 points over a 40-token control alphabet and up to 4 (5) points over a sub-alphabet, from three initial states, through PushInterpreter::run with small limits AND by single steps; nesting ladder 1..512 for parse, print, Item::size and run; (generated) every program emitted by CodeGenerator::random_code_with_size for sizes 1..N over the registry (minus allocation-sizing instructions) under all RNG scripts with <= 1 deviation, executed both ways; (step) every registered instruction by NAME (the list comes from InstructionSet::cache, so new instructions are swept automatically) x operand product of the boundary alphabets at exact depth and with bystanders x every operand-missing pattern x {empty, fully populated} state, executed by PushInterpreter::step in an overflow-checking and in a release build, in supervised worker processes (address-space limit; an abort is attributed to its case by a breadcrumb and replayed); oracle = returns normally",
        bounds=dict(quick="step: boundary alphabets, product capped at 8000 per instruction (then the reduced alphabet); bfs: depth 3 (2 with all 305 actions, then 62 actions); programs: 4 points; generated: N=6", thorough="step: wider alphabets, cap 60000; bfs: depth 4; programs: 5 points; generated: N=8, 2 deviations"),
        assumptions=["operand sizes above 1000 for allocation-sizing instructions are the resource envelope (C15)", "EXEC.CMD names resolve to the stubs in /verif/stubs (PATH is set by the supervisor)"],
    ),
    "C02": dict(
        families=lambda tier: [fam("programs", shards=12), fam("ladder")],
        rule="every program tree up to S points over {TICK0, TICK1, TICK5 (harness instructions that advance a virtual clock), EXEC.Y, EXEC.DUP, NOOP, 1, lists} x eval_push_limit in -1..L+1 x growth_cap in {0,1,2,5} x eval_time_limit in {5000, 0, 3} ms (virtual clock) x 3 initial states; straight-line programs needing exactly n = 0..L+3 steps; GROW instructions that push k = 0..8 items onto EACH of the nine counted stacks in one step around every cap; run by PushInterpreter::run. Oracle: an independent accounting single-steps a second copy with the public step (after copying EXEC onto CODE as documented), records size (own sum of nine stack depths) and virtual time per step, derives from the property statement the admissible (outcome, executed steps) pairs (StepLimit only at limit..limit+1 steps, Time mandatory at the first check past the limit, Growth exactly at the first step growing by more than the cap, NoErrors only at quiescence; precedence free) and requires the run's outcome and bit-identical final state to be one of them; plus: step on an empty EXEC returns true and changes nothing; one labelled real-clock smoke case",
        bounds=dict(quick="S=4 (800 programs), L=6", thorough="S=5, L=12"),
        assumptions=["time-limit logic is decided on the virtual clock (hook H4); the real clock is only smoke-tested"],
    ),
    "C03": dict(
        families=lambda tier: [fam("tokens", BOTH, shards=8, crumbs=True), fam("chars", BOTH, shards=4, crumbs=True), fam("ladder", BOTH, crumbs=True)],
        death_is_verdict=True,
        rule="(tokens) every sequence of up to K tokens over a 26-token alphabet (parentheses, ints incl. +5 and 2147483648, floats incl. 1e3/inf/NaN, TRUE/FALSE/true, a name, an instruction, well-formed / empty / truncated / ill-typed / non-ASCII INT[ FLOAT[ BOOL[ literals, a non-ASCII token), joined by blanks and by newline-tab, parsed into the empty and into a fully populated state; (chars) every character string up to L over I N T [ ] ( ) , 1 blank e-acute; (ladder) token lengths up to 1e5 and nesting up to 1024/4096, balanced and unbalanced; oracle = no panic in the overflow-checking and the release build, no stack other than EXEC touched, and for balanced input EXEC equals the tree built by an independent recursive-descent reference (first token on top, documented classification cascade, malformed vector literal contributes nothing); non-trivial = balanced inputs with a tree comparison",
        bounds=dict(quick="K=4 tokens (457k sequences + shorter), L=5 characters", thorough="K=5 tokens (11.9M), L=7 characters (19.5M)"),
        assumptions=["'X[]' (empty literal) may denote the empty vector or be dropped: the documentation is silent, both are accepted"],
    ),
    "C04": dict(
        families=lambda tier: [fam("scalar", BOTH, shards=4, digests=True, crumbs=True)],
        rule="every BOOLEAN/INTEGER/FLOAT/NAME arithmetic, logic, comparison, min/max, trig and conversion instruction, dispatched by NAME through the real InstructionSet and PushInterpreter::step, on every operand tuple of the boundary alphabets x {exact depth, two bystanders below} x {empty, fully populated} other stacks; oracle = reference model row (Exact / OneOf / Constraint), plus identical per-case outcome digests in the checked (overflow-checking) and release builds; non-trivial = cases whose step changes the state",
        bounds=dict(quick="INTEGER 11 boundary values, FLOAT 13 (incl. -0.0, inf, NaN, MIN_POSITIVE), all pairs", thorough="INTEGER 27 values (incl. 46340/46341, 2^24+1, 2^30), FLOAT 29 values (incl. subnormals, 2^24, 2^31, 0.99999994), all pairs"),
        assumptions=["operand values outside the boundary alphabets are not explored", "f32::sin/cos/tan/exp of std are the documented meaning of the trigonometric instructions"],
    ),
    "C05": dict(
        families=lambda tier: [fam("all")],
        rule="9 stack types x {DUP,POP,SWAP,ROT,YANK,YANKDUP,SHOVE,FLUSH,STACKDEPTH} (every registered one) x depth 0..N of pairwise distinct items x index in {none, MIN, -2..depth+1, MAX} x {no second integer, a second integer below the index}; oracle = ONE generic position map applied to an abstract list (the same function for all nine types) + multiset conservation + every other component unchanged",
        bounds=dict(quick="depth 0..5", thorough="depth 0..10"),
        assumptions=["BOOLEAN items cannot be pairwise distinct; an aperiodic pattern is used instead"],
    ),
    "C06": dict(
        families=lambda tier: [fam("step"), fam("loops")],
        rule="(step) one step of EXEC.IF, CODE.IF, EXEC.K, EXEC.S, EXEC.Y, CODE.DO, CODE.DO*, CODE.QUOTE, EXEC.DUP/POP/SWAP/ROT/FLUSH and of list unpacking for all EXEC and CODE depths 0..4 of distinct items x BOOLEAN in {[],[T],[F],[T,F]} against the reference rows, and one unfolding step of EXEC.LOOP / CODE.LOOP / INTVECTOR.LOOP and the INDEX.* instructions for EXEC depth 0..3 x CODE depth 0..2 x five INDEX stacks x four INTVECTOR stacks (the loop continuation lies directly beneath the body in every iteration, including the last); (loops) whole executions, by single steps to quiescence, of EXEC.LOOP / CODE.LOOP / INTVECTOR.LOOP programs: iteration counts -1..N, every int vector up to length 3 over {1,2}, 12 bodies (incl. bodies that read INDEX.CURRENT, push/pop INTEGER, are empty, or are themselves loops), two-level nestings of all 9 loop-kind pairs, each from an empty state and from one that already holds an index, a vector and an integer; oracle = the log of a harness-registered PROBE instruction (INDEX.CURRENT, top INTEGER, INDEX depth) and the complete final state equal those of a structured reference that encodes the documented whole-run meaning (body destination-many times with CURRENT = 0..n-1, once per element, nothing left behind)",
        bounds=dict(quick="n <= 5, vectors <= 3, nesting 2", thorough="n <= 8, vectors <= 4, more bodies"),
        assumptions=["loop bodies in the alphabet do not manipulate the EXEC stack below themselves"],
    ),
    "C07": dict(
        families=lambda tier: [fam(t) for t in ("BOOLEAN", "INTEGER", "FLOAT", "CODE", "EXEC", "BOOLVECTOR", "INTVECTOR", "FLOATVECTOR", "cross")],
        rule="explicit-state BFS from the empty state, one BFS per value type T (and one across two types): actions = put one token on EXEC and execute one real interpreter step (names X, Y, NAME.QUOTE, T.DEFINE, CODE.DEFINITION, T.POP, NAME.POP, two values of T incl. code items that mention a name) or execute one pending step; states de-duplicated on the canonical snapshot (bindings and quote flag included); oracle after EVERY transition: full state equals the reference interpreter's (unbound name -> NAME; bound -> binding pushed for execution; quote affects exactly the next name; redefinition replaces; CODE.DEFINITION returns the binding)",
        bounds=dict(quick="depth 8 (cross 6), stacks capped at depth 3-4", thorough="depth 13 (cross 9)"),
        assumptions=["two names and two values per type"],
    ),
    "C08": dict(
        families=lambda tier: [fam("unary", shards=4, crumbs=True), fam("binary", shards=10, crumbs=True), fam("deep", shards=12, crumbs=True), fam("api", shards=2)],
        rule="all code trees up to S points over a 6-atom alphabet (int 1, 2, 11, float, name, instruction; 3 atoms for pairs): SIZE, EXTRACT, CAR, CDR, LENGTH, NTH, NULL, ATOM on every tree x every index in [-2S,2S] u {MIN,MAX}; INSERT (x every index), POSITION, CONTAINER, CONTAINS, MEMBER, =, CONS, LIST, DISCREPANCY on all pairs (t,u), SUBST on triples; by NAME through step; oracle = reference tree functions (depth-first point indexing) + the metamorphic equations of the statement (EXTRACT after INSERT, POSITION/EXTRACT, -1 iff no occurrence, DISCREPANCY symmetric and 0 on identical items, atoms conserved); the Item:: API (size, traverse, contains, container, equals, insert, substitute) checked directly; (deep) all trees with 5..D points over a 2-atom alphabet x all patterns up to 3 points for POSITION/CONTAINER/CONTAINS/MEMBER and every index for EXTRACT/INSERT (index arithmetic after several nested lists)",
        bounds=dict(quick="trees <= 4 points (unary: 6 atoms; pairs: |t|<=4, |u|<=3 over 3 atoms); deep: D=6", thorough="unary: trees <= 6 points, pairs: |t| <= 5; deep: D=8"),
        assumptions=["atoms outside the alphabet behave like those inside; NaN atoms are not explored"],
    ),
    "C09": dict(
        families=lambda tier: [fam("vector", BOTH, shards=8, digests=True, crumbs=True)],
        rule="every BOOLVECTOR/INTVECTOR/FLOATVECTOR instruction that is not a generic stack operation or RAND, by NAME through step: all ordered pairs of a vector pool (lengths 0..N, equal and unequal, ramp / boundary / zero-containing / repeating patterns; all boolean vectors) x offsets/indices {MIN,-5..5,MAX} x scalar operands; oracle = reference row (second[j] op top[j-offset] on the overlap, clamped GET/SET, documented aggregates), identical digests in checked and release builds",
        bounds=dict(quick="vector length <= 3", thorough="vector length <= 5"),
        assumptions=["sizes above 1000 for ONES/ZEROS/SINE belong to the resource envelope (C15) and are not swept here"],
    ),
    "C10": dict(
        families=lambda tier: [fam("missing", shards=4, crumbs=True), fam("fired", shards=8, crumbs=True)],
        rule="all registered instructions by NAME: (missing) every non-empty subset of the instruction's operand stacks made too short, every depth below the need, on an empty and on a fully populated state (every stack, INDEX, queues, graphs, bindings); (fired) the operand product of the small alphabet on both bases; oracle = on the full snapshot: unfired => nothing pushed, operand stacks lose at most their own top operands, every other component identical; fired => change confined to the documented footprint",
        bounds=dict(quick="tiny alphabet for fired cases", thorough="boundary alphabet for fired cases (capped per instruction, then tiny)"),
        assumptions=["footprints are read off the doc comments (harness/src/foot.rs)"],
    ),
    "C11": dict(
        families=lambda tier: [fam("exact", shards=4), fam("floats", shards=4)],
        rule="every code tree up to S points over {0,-1,5,MIN,MAX,TRUE,FALSE,A,x1,INTEGER.+,NOOP,CODE.QUOTE} (exact clause) and over ten floats incl. -0.0, 0.0004, 1e10, f32::MAX, inf, -inf, NaN (print-parse-print clause), printed three ways (Item::to_string, PushStack::to_string of a stack with neighbours, CODE.PRINT through step), parsed back with the real parser; oracle = structural equality by an independent walk (not Item::equals) / identical second print",
        bounds=dict(quick="trees <= 4 points", thorough="trees <= 5 points"),
        assumptions=["vector literals are outside the property (they print without their type prefix)"],
    ),
    "C12": dict(
        families=lambda tier: [fam("sized"), fam("bounded")],
        wall_cap=dict(quick=900, thorough=7200),
        rule="deviation-bounded exhaustive exploration of RNG scripts (hooks H2/H3: every draw of the code generator is answered from a script; default answers a fixed sequence; a deviation replaces one answer by a value of a grid that yields EVERY outcome k of every gen_range(0..n), n <= 12, in one draw -- self-checked at start-up on this build of rand): random_code_with_size for n = 1..N x instruction list in {empty, [NOOP], two instructions, full registry} x bindings {0,1,2} x new-name probability {0,0.5,1}; random_code for bounds 0..M; decompose 1..M; CODE.RAND by NAME for INTEGER in {MIN,-100,-27,-9,-3,-1,0,1,2,3,9,26,100,MAX} x max-points {0,1,2,6,25,-25}. Oracle per run: exact size n by an independent point count / 1 <= size <= bound-1 / None below 2; size <= min(|n|,|max|); every leaf an instruction of the list (NOOP if empty), TRUE/FALSE, int, float in [0,1), name (bound if new names are disabled); parts positive summing to the request; each item executes (small lists) and prints/parses/prints stably; reachability of every leaf kind and list shape over the explored scripts",
        bounds=dict(quick="N=7, M=8; <=1 deviation over the full grid (47 values), <=2 over a 5-value grid", thorough="N=10, M=10; <=2 full-grid deviations for n<=4, <=3 reduced for n<=5"),
        assumptions=["joint effects of more than d deviating draws are not explored", "names produced by the `names` crate (its own rand 0.3) are opaque strings", "distributional claims (uniformity) are not decided; the property does not state them"],
    ),
    "C13": dict(
        families=lambda tier: [fam("boolvec"), fam("vectors"), fam("instr")],
        rule="same engine as C12 (all RNG scripts with a bounded number of deviations): random_bool_vector for size -1..N x sparsity in {0,.1,.25,.5,.75,.9,1,-.1,1.1,NaN,+-inf} (length, TRUE count within the documented rounding, EVERY position reachable as TRUE over the explored scripts, invalid parameters => no vector, no panic, no draw-horizon hit = no hang); random_int_vector size {-1,0,1,2,5} x (min,max) incl. equal, reversed, (MIN,MAX), (MAX-1,MAX) (length, all in [min,max)); random_float_vector size x (mean,sd) in {0,1,-1,inf,NaN}^2; INTEGER.RAND / FLOAT.RAND by NAME over configuration pairs incl. equal, reversed, (f32::MIN,f32::MAX), NaN, inf; BOOLEAN.RAND (both values reachable); NAME.RANDBOUNDNAME over 0..3 bindings (always a bound name, every bound name reachable); BOOLVECTOR/INTVECTOR/FLOATVECTOR.RAND by NAME (operand order, stack shapes)",
        bounds=dict(quick="N=8; <=1 full-grid deviation, <=2 reduced", thorough="N=10; <=2 full-grid deviations"),
        assumptions=["joint effects of more than d deviating draws are not explored"],
    ),
    "C14": dict(
        custom="c14",
        rule="five exhaustive differentials: (order) the whole single-step sweep (every RAND-free instruction x operand product, incl. operand classes that share a lazily computed quantity such as a hypercube edge) executed forward and then in reverse order in one process on one InstructionSet -- every case must give the same outcome in both passes; (profile) the per-case outcome digests of the overflow-checking and the release build are equal; (pairs) all ordered pairs (q,p) of a RAND-free, id-free program corpus: p after q on the same thread with the same and with a fresh InstructionSet equals p alone on a pristine thread, and p twice gives the same result; (cli) the guard-OFF pushr binary run on every terminating corpus program prints the library's final EXEC/CODE/INT stacks; (threads) loom explores ALL interleavings of the atomic operations of 2 and 3 threads that build graphs through the real parser and run loop (and through Graph::add_node): ids pairwise distinct, each thread's final state (ids renamed by creation order) equal; an inventory of statics/atomics/locks/unsafe in /repo/src must list only NODE_COUNTER (otherwise exit 2: the scheduler does not own every shared variable)",
        bounds=dict(quick="sweep with the small alphabet (capped 3000 cases per instruction); corpus ~150 programs (22k pairs x 2); loom: 2x2, 2x3 unbounded, 3x2 with preemption bound 3", thorough="boundary alphabet (cap 20000); corpus ~1500 programs; loom 3x2 unbounded, 3x3 bound 3"),
        assumptions=["loom explores 2-3 threads at the one shared atomic; everything else is thread-confined by Rust's type system (no unsafe, no other statics: asserted by the inventory)", "16-thread free-running runs are not part of the verdict"],
    ),
    "C15": dict(
        families=lambda tier: [fam("ladder", shards=8, crumbs=True), fam("growers", shards=8, crumbs=True)],
        max_deaths=80,
        case_wall_s=15,
        death_is_verdict=True,
        rule="(ladder) every registered instruction that takes INTEGER operands x every INTEGER operand position x the magnitude ladder {-1,0,1,2,10^3,10^6,2^31-1,-10^6,MIN+1,MIN} (other operands small), plus every pair of INTEGER operand positions both at 100 and both at 1000 (cooperating operands), one real interpreter step each in a worker whose global allocator counts bytes/allocations and enforces a budget (256 MiB additional live memory, 5*10^7 allocations): a step over budget terminates the worker at once and is attributed to its case through a breadcrumb, restarted after it; oracle on deterministic counters: <= 64 MiB allocated, <= 4*10^6 allocations, <= 10 s per step (a watchdog thread terminates a case that spins without allocating after 15 s); (growers) every program up to K points over {CODE.DUP, CODE.LIST, CODE.APPEND, CODE.CONS, EXEC.Y, EXEC.S, EXEC.DUP, CODE.QUOTE, a name, NAME.DUP, NAME.CAT} stepped under the default limits (1000 steps, growth cap 500) with monitors after every step: no CODE/EXEC item exceeds max-points-in-program, no name longer than 512 KiB, live heap <= 1 GiB, no step over 10 s",
        bounds=dict(quick="K=4 (2352 programs)", thorough="K=5"),
        assumptions=["'modest function of the state' is instantiated by fixed thresholds two orders of magnitude above anything legitimate for the tiny states used and two below what 2^31-1 requests"],
    ),
    "C16": dict(
        families=lambda tier: [fam("int"), fam("item")],
        rule="explicit-state BFS to fixpoint over PushStack<i32> and PushStack<Item>: every reachable content of bounded size x every public operation x every position in [0,len+2], each compared (return value and contents) with a Vec whose index 0 is the top; non-trivial = transitions that change the container",
        bounds=dict(quick="i32: values {1,2}, size<=5; Item: values {1,( 1 ),( )}, size<=4", thorough="i32: values {1,2,3}, size<=8; Item: 4 values, size<=5"),
        assumptions=["a PushStack has no state besides its element vector (checked: derived Debug shows one field)", "element values outside the alphabet behave like those inside (the container is parametric in T)"],
    ),
    "C17": dict(
        families=lambda tier: [fam("buffer"), fam("io")],
        rule="(a) BFS to a fixpoint on the full internal state (derived Debug: cells incl. stale ones, start, end, len) of PushBuffer<i32> for every capacity and both kinds, all operations and positions in [0,cap+1], against a bounded VecDeque; (b) BFS over INPUT.*/OUTPUT.* instruction histories driven by name through PushInterpreter::step plus fill-to-capacity histories; non-trivial = state-changing transitions",
        bounds=dict(quick="capacity 1..4, values {1,2,9}; io histories to depth 6", thorough="capacity 1..5; io histories to depth 8"),
        assumptions=["values outside the alphabet behave like those inside (the buffer is parametric in T)", "io BFS is depth-bounded (reported as a cap); the buffer BFS is complete for each capacity"],
    ),
    "C18": dict(
        families=lambda tier: [fam("api"), fam("instr")],
        wall_cap=dict(quick=600, thorough=7200),
        rule="(api) explicit-state BFS over the Graph API: add_node (2 states), remove_node, add_edge, remove_edge, set_state, set_weight, clone-snapshot, with ids ranging over live ids, stale ids, 0 and a never-issued id; node ids made deterministic per history (hook H6); after EVERY transition: every edge connects two existing nodes, at most one edge per ordered pair, nodes/states/edges/weights, node_size, edge_size, get_state, get_weight and filter (as sets) equal a set-based model, an earlier clone is unchanged, diff(snapshot, current) is None exactly when the model says equal; (instr) BFS over GRAPH.* instruction histories by NAME through step (operands supplied per action from the id classes live/stale/0/-1/99/MAX, states, weights, filters, history positions -1..2,500) against the reference rows, query results compared as sets, GRAPH.DUP snapshots below the top never change, plus the 101-fold GRAPH.DUP history on the capacity-100 stack",
        bounds=dict(quick="api: depth 7, <=4 nodes created, <=3 alive; instr: depth 6, <=3 graphs", thorough="api: depth 9; instr: depth 8"),
        assumptions=["HashMap iteration order is not observed: query results are compared as sets"],
    ),
    "C19": dict(
        families=lambda tier: [fam("addset", shards=8, crumbs=True), fam("access", shards=2, crumbs=True)],
        rule="(addset) every stack-id vector up to length K over the 12 stack ids and the invalid ids 0, 13, -1, on a fully and a half populated state: LIST.ADD (reference row + conservation of the multiset of atoms over all stacks and record contents + LIST.GET followed by step* puts the literal items back in their original order and leaves the record), LIST.SET x CODE depth 0..3 x position in {-1,0,1,2,3,MAX} (exactly the addressed record changes, nothing is lost); (access) LIST.REMOVE / LIST.GET / LIST.BVAL / IVAL / FVAL over CODE stacks of 0..4 items (nested records, empty list, atom, NaN) x positions {MIN,-1..3,MAX} x n in {MIN,-1,0,1,2,5,MAX}; all by NAME through step against the reference rows",
        bounds=dict(quick="K=3 (3616 vectors; LIST.SET for K<=2)", thorough="K=4 (54241 vectors)"),
        assumptions=["record contents are compared structurally incl. kinds"],
    ),
    "C20": dict(
        families=lambda tier: [fam("geometry", shards=12, crumbs=True), fam("instr", shards=8, crumbs=True)],
        rule="(geometry) Topology::find_neighbors for every ntotal in 1..N and every perfect power up to P (the powf shortcut), ndim 1..4 (5 for powers), every centre (corners/middle/last for the large powers), 14 radii (exact lattice distances 0,1,2,3,5 and values strictly between lattice distances, 100): equals the brute-force Euclidean ball computed in integer arithmetic in the smallest enclosing hypercube; laws checked on the implementation's own answers: contains the centre, ascending, no repeats, all < ntotal, symmetric over all pairs, monotone in the radius; decompose_index is a bijection onto the hypercube; invalid parameters give nothing; (instr) LIST.NEIGHBOR*IDS/BVALS/IVALS/FVALS by NAME over all operand tuples of clamping classes (size, index, dims, position incl. MIN/MAX; radius incl. negative, NaN, inf) and CODE stacks of 0/3/9 records",
        bounds=dict(quick="N=64, P=1296", thorough="N=343, P=4096"),
        assumptions=["radii are exactly representable lattice distances or lie strictly between lattice distances, so float rounding cannot flip the reference"],
    ),
}
