"""C14 driver: worker families (order, pairs) + build-profile differential + CLI = library
differential + loom exploration of the node-id counter + inventory of shared state."""
import json, os, re, subprocess, time


def inventory():
    """Every static / thread_local / lazy_static / unsafe / Mutex / Atomic in the shipped sources."""
    hits = []
    root = "/repo/src"
    pat = re.compile(r"\b(static\s+(mut\s+)?[A-Z_]+\s*:|thread_local!|lazy_static!|unsafe\b|Mutex\b|RwLock\b|Atomic[A-Za-z0-9]*::new|OnceCell|OnceLock|RefCell<.*>\s*=\s)")
    for dp, _, fs in os.walk(root):
        for f in sorted(fs):
            if not f.endswith(".rs") or f == "verif.rs":
                continue
            in_tests = False
            for n, line in enumerate(open(os.path.join(dp, f), encoding="utf-8", errors="replace"), 1):
                if "#[cfg(test)]" in line:
                    in_tests = True
                if in_tests:
                    continue
                s = line.strip()
                if s.startswith("//"):
                    continue
                if pat.search(line):
                    hits.append("%s:%d: %s" % (os.path.relpath(os.path.join(dp, f), "/repo"), n, s[:120]))
    return hits


EXPECTED_INVENTORY = ["NODE_COUNTER"]


def run(prop, tier, seed, chk):
    t_start = time.time()
    chk.build(["checked", "release"])
    env = chk.ENV
    # loom crate and the guard-off CLI are rebuilt from /repo's current sources
    r = subprocess.run(["cargo", "build", "--offline", "--release", "--quiet"], cwd=os.path.join(chk.ROOT, "loomcheck"), env={k: v for k, v in env.items() if k != "CARGO_TARGET_DIR"}, stdout=subprocess.PIPE, stderr=subprocess.STDOUT, text=True)
    if r.returncode != 0:
        chk.log(r.stdout[-3000:])
        chk.machinery("loomcheck does not build (the node counter must stay a loom-instrumentable atomic)")
    r = subprocess.run(["cargo", "build", "--offline", "--quiet", "--bin", "pushr"], cwd="/repo", env=env, stdout=subprocess.PIPE, stderr=subprocess.STDOUT, text=True)
    if r.returncode != 0:
        chk.machinery("guard-off build of the pushr binary failed")
    cli = os.path.join(chk.TARGET, "debug", "pushr")

    os.makedirs(os.path.join(chk.ROOT, "tmp"), exist_ok=True)
    fams = [dict(name="order", profiles=["checked", "release"], shards=1, digests=True, extra=[], crumbs=False), dict(name="orderrev", profiles=["checked"], shards=1, digests=True, extra=[], crumbs=False), dict(name="pairs", profiles=["checked", "release"], shards=12, digests=True, extra=[], crumbs=True), dict(name="solo", profiles=["checked", "release"], shards=2, digests=True, extra=[], crumbs=True), dict(name="carry", profiles=["checked", "release"], shards=8, digests=False, extra=[], crumbs=True), dict(name="memo", profiles=["checked", "release"], shards=8, digests=False, extra=[], crumbs=True)]
    jobs = []
    for f in fams:
        for p in f["profiles"]:
            for s in range(f["shards"]):
                dig = os.path.join(chk.ROOT, "tmp", "dig-%s-%s-%s-%d" % (prop, f["name"], p, s)) if f["digests"] else None
                jobs.append(chk.Job(prop, f["name"], p, tier, s, f["shards"], digests=dig))
    chk.run_jobs(jobs, 3000)

    extra_viol, notes = [], {}
    os.makedirs(os.path.join(chk.REPLAYS, prop), exist_ok=True)

    # --- execution order across processes: forward-first vs reverse-first digests of the same cases
    def table(fam):
        t = {}
        path = os.path.join(chk.ROOT, "tmp", "dig-%s-%s-checked-0" % (prop, fam))
        if os.path.exists(path):
            for line in open(path):
                a, b = line.split()
                t.setdefault(int(a), b)  # first digest written for a case id (the forward pass writes one per case)
        return t

    fwd, rev = table("order"), table("orderrev")
    differing = sorted(c for c in fwd if c in rev and fwd[c] != rev[c])
    notes["order_cases_compared_across_processes"] = len(set(fwd) & set(rev))
    for c in differing[:3]:
        path = os.path.join(chk.REPLAYS, prop, "order-%d.json" % c)
        json.dump(dict(prop=prop, family="order", profile="checked", tier=tier, case=c, extra=[], shard=0, nshards=1, site="execution order", cls="outcome depends on what ran earlier in the process"), open(path, "w"), indent=1)
        extra_viol.append((path, dict(site="execution order", cls="the same step gives a different result in a process that ran the sweep in the opposite order (%d cases differ)" % len(differing), descr="sweep case %d; replay prints the case" % c, detail="")))
    p = os.path.join(chk.ROOT, "tmp", "dig-%s-orderrev-checked-0" % prop)
    if os.path.exists(p):
        os.remove(p)

    # --- CLI = library
    out = subprocess.run([chk.bin_path("checked"), prop, "clidump", "--tier", tier], stdout=subprocess.PIPE, stderr=subprocess.DEVNULL, env={k: v for k, v in env.items() if k != "MCW_RESULT_FD"}, text=True).stdout
    cases = [l.split("\t")[1:] for l in out.splitlines() if l.startswith("CLICASE\t")]
    cli_checked = cli_bad = 0
    from concurrent.futures import ThreadPoolExecutor

    def one(c):
        text, e, cd, i = c
        try:
            o = subprocess.run([cli, text], stdout=subprocess.PIPE, stderr=subprocess.DEVNULL, text=True, timeout=60).stdout
        except subprocess.TimeoutExpired:
            return (c, "timeout", None)
        blocks = {"EXEC": None, "CODE": None, "INT": None}
        for line in o.splitlines():
            m = re.match(r"^> (EXEC|CODE|INT)\s*: ?(.*)$", line)
            if m:
                blocks[m.group(1)] = m.group(2)
        got = (blocks["EXEC"], blocks["CODE"], blocks["INT"])
        want = (e, cd, i)
        return (c, got, want)

    with ThreadPoolExecutor(max_workers=chk.NCPU) as ex:
        for c, got, want in ex.map(one, cases):
            cli_checked += 1
            if got == "timeout" or tuple(x.strip() if x is not None else None for x in got) != tuple(x.strip() for x in want):
                cli_bad += 1
                if cli_bad <= 3:
                    path = os.path.join(chk.REPLAYS, prop, "cli-%d.json" % cli_bad)
                    json.dump(dict(prop=prop, kind="cli", program=c[0], library=want, cli=got), open(path, "w"), indent=1)
                    extra_viol.append((path, dict(site="command-line front end", cls="final stacks differ from the library", descr="program %s" % c[0], detail="library EXEC|CODE|INT = %r, pushr binary = %r" % (want, got))))
    notes["cli_programs_compared"] = cli_checked
    if cli_checked < 20:
        chk.machinery("CLI differential compared only %d programs" % cli_checked)

    # --- loom: all interleavings of the node-id counter through the real parser + run loop
    loom_bin = os.path.join(chk.TARGET, "loom", "release", "loomcheck")
    configs = [("2", "2", None, "api"), ("2", "2", None, "interp"), ("2", "3", None, "interp"), ("3", "2", "3" if tier == "quick" else None, "interp")]
    if tier == "thorough":
        configs.append(("3", "3", "3", "interp"))
    loom_exec = 0
    loom_lines = []
    for th, adds, bound, mode in configs:
        args = [loom_bin, th, adds, bound if bound else "none", mode]
        try:
            p = subprocess.run(args, stdout=subprocess.PIPE, stderr=subprocess.PIPE, text=True, timeout=3000)
        except subprocess.TimeoutExpired:
            chk.machinery("loom run %s timed out" % args)
        line = next((l for l in p.stdout.splitlines() if l.startswith("LOOM ")), None)
        if line is None:
            # loom aborts the process on some failures (e.g. a deadlock report): treat a non-zero exit as a violation with the stderr tail
            line = "LOOM violation (no report) rc=%s %s" % (p.returncode, (p.stderr or "")[-400:].replace("\n", " "))
        loom_lines.append(line)
        m = re.search(r"executions=(\d+)", line)
        if m:
            loom_exec += int(m.group(1))
        if line.startswith("LOOM violation") or p.returncode != 0:
            path = os.path.join(chk.REPLAYS, prop, "loom-%s-%s-%s.json" % (th, adds, mode))
            json.dump(dict(prop=prop, kind="loom", cmd=args, report=line), open(path, "w"), indent=1)
            extra_viol.append((path, dict(site="node-id counter (loom)", cls="an interleaving of concurrent node creation breaks the property", descr=" ".join(args), detail=line[:600])))
    notes["loom"] = loom_lines
    notes["loom_executions"] = loom_exec

    # --- inventory: the scheduler must own every shared variable
    inv = inventory()
    unexpected = [h for h in inv if not any(e in h for e in EXPECTED_INVENTORY) and "loom" not in h]
    notes["shared_state_inventory"] = inv
    hard = [h for h in unexpected if "thread_local!" not in h and "RefCell" not in h]
    if hard:
        chk.machinery("shared-state inventory changed (%s): the loom exploration only owns NODE_COUNTER; extend loomcheck before claiming the thread clause" % "; ".join(hard[:3]))
    if unexpected:
        print("NOTE: thread-local state present (thread-confined; history-dependence is decided by the order/pairs differentials): %s" % "; ".join(unexpected[:3]))

    spec = chk.CHECKS[prop]
    chk.finalize(prop, tier, seed, spec, fams, jobs, t_start, extra_cov=notes, extra_viol=extra_viol)
