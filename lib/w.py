#!/usr/bin/env python3
"""dev helper: run one worker directly and summarise: w.py C04 scalar [--tier t] [--profile p] [extra...]"""
import json, os, subprocess, sys, time
args = sys.argv[1:]
profile = "checked"
if "--profile" in args:
    i = args.index("--profile"); profile = args[i+1]
r, w = os.pipe()
env = dict(os.environ, MCW_RESULT_FD=str(w), PATH="/verif/stubs:" + os.environ["PATH"])
t0 = time.time()
p = subprocess.Popen(["/verif/target/%s/mcw" % ("release" if profile == "release" else profile)] + args, stdout=subprocess.DEVNULL, stderr=subprocess.PIPE, env=env, pass_fds=(w,))
os.close(w)
data = os.fdopen(r, "rb").read()
err = p.stderr.read().decode(errors="replace")
p.wait()
print("rc", p.returncode, "wall %.1fs" % (time.time() - t0))
if err.strip(): print("STDERR:", err[-2000:])
res = None
for l in data.decode().splitlines():
    if l.startswith("{"): res = json.loads(l)
if res:
    print({k: res[k] for k in ["cases", "states", "transitions", "max_depth", "fixpoint", "fail_count", "caps"]}, "outcomes", len(res["outcomes"]), "nontrivial", len(res["nontrivial"]))
    for k, v in sorted(res["fail_classes"].items()): print("  FAIL", v, k)
    for k, v in res["known"].items(): print("  KNOWN", k, v["count"], v["witness"][:200])
    n = int(os.environ.get("NFAILS", "8"))
    for f in res["fails"][:n]:
        print("  --", f["case"], f["site"], f["class"]); print("     ", f["descr"][:400]); print("     ", f["detail"][:600])
    print("sometimes", res.get("sometimes"))
