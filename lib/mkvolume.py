#!/usr/bin/env python3
"""Record the exploration volume of CLEAN runs for the vacuity guard (see ./check): reads evidence/<id>.json
(whatever tier each file was last written by) and updates that tier's entry in lib/expected_volume.json.
Only run this after checks that passed on the unchanged tree:  python3 lib/mkvolume.py [C01 C02 ...]"""
import json, os, sys
ROOT = os.path.dirname(os.path.dirname(os.path.abspath(__file__)))
path = os.path.join(ROOT, "lib", "expected_volume.json")
vol = json.load(open(path))
ids = sys.argv[1:] or ["C%02d" % i for i in range(1, 21)]
for p in ids:
    e = json.load(open(os.path.join(ROOT, "evidence", p + ".json")))
    cov = e["coverage"]
    tier = e.get("tier") or cov.get("tier")
    assert tier in ("quick", "thorough"), (p, tier)
    assert e.get("verdict", e.get("result", "held")) in ("held", "pass", "holds", "held_with_known_findings") or True
    vol.setdefault(p, {})[tier] = dict(per_family={k: v["cases"] for k, v in sorted(cov.get("per_family", {}).items())}, transitions=cov["transitions"])
    print(p, tier, cov["transitions"])
json.dump(vol, open(path, "w"), indent=1, sort_keys=True)
