#!/usr/bin/env python3
"""Regenerates /verif/MANIFEST.json from the table below (run after registering a check)."""
import json, subprocess, sys, os
sys.path.insert(0, os.path.dirname(os.path.abspath(__file__)))
from registry import CHECKS

props = [json.loads(l) for l in open('/verif/properties.jsonl')]

TEXT = {
 "C01": ("Bounded-exhaustive: every registered instruction (by name) on every operand tuple of the boundary alphabets, every operand-missing pattern, empty and populated states, in an overflow-checking and a release build, inside supervised worker processes; see evidence for the families that ran.",
         "Trusted: the alphabets; worker supervision (RLIMIT_AS, breadcrumb attribution). Values outside the alphabets, programs beyond the bounds are not covered.",
         "bounded exhaustive enumeration of single steps / BFS over the real interpreter transition function, no-crash invariant"),
 "C02": ("Every program of a control alphabet x every limit configuration run by the real run loop under a virtual clock; outcome and final state must be among the admissible (outcome, steps) pairs derived from an independent single-step accounting.",
         "Trusted: the admissible-set construction in harness/src/c02.rs; the virtual clock hook.",
         "exhaustive enumeration of programs x configurations with scripted clock answers; differential against repeated single steps"),
 "C03": ("Every token sequence up to K over a 26-token alphabet and every character string up to L over an 11-character alphabet parsed by the real parser in two build profiles; balanced inputs compared with an independent recursive-descent reference; all other stacks must be untouched.",
         "Trusted: the reference parser in harness/src/c03.rs; alphabets.",
         "exhaustive enumeration of all strings up to a length bound against a reference parser"),
 "C04": ("Every scalar instruction by name on every operand tuple of the boundary alphabets, each step compared with the reference model row and across build profiles.",
         "Trusted: reference rows in harness/src/refmodel.rs (written from the doc comments); std float functions.",
         "exhaustive enumeration over a boundary alphabet against a reference model + build-profile differential"),
 "C05": ("Every registered stack-manipulation instruction of the nine types on every depth 0..N and every index class, compared with ONE generic position map.",
         "Trusted: the generic position map (harness/src/steps.rs position_map).",
         "exhaustive enumeration (type x op x depth x index) against one generic reference"),
 "C06": ("Every combinator on every EXEC/CODE depth 0..4; every loop program of the alphabets executed to quiescence with a PROBE instruction and compared (log + final state) with a structured reference of the documented whole-run meaning.",
         "Trusted: run_struct in harness/src/c06.rs and the control rows of refmodel.rs.",
         "exhaustive enumeration of small programs executed on the real interpreter against a reference interpreter"),
 "C07": ("Explicit-state BFS over define/use/quote/redefine token histories for each of the eight value types, real state compared with the reference interpreter after every transition.",
         "Trusted: ref_step in harness/src/refmodel.rs.",
         "explicit-state BFS over the real interpreter transition function with canonical-state dedup against a reference model"),
 "C08": ("All code trees up to S points x all indices / all pairs, every CODE surgery instruction by name compared with reference tree functions and with the property's own metamorphic equations; Item API checked directly.",
         "Trusted: harness/src/treeops.rs (depth-first point indexing) and the CODE rows of refmodel.rs.",
         "exhaustive small-scope enumeration of code trees against a reference model + metamorphic oracles"),
 "C09": ("Every vector instruction by name on all ordered pairs of a vector pool (lengths 0..N) x offsets/indices incl. extremes, compared with the reference rows and across build profiles.",
         "Trusted: reference rows (README overlap rule: result[j] = second[j] op top[j-offset]).",
         "exhaustive enumeration over vector pools against a reference model + build-profile differential"),
 "C10": ("All registered instructions x every subset of operand stacks made too short x every depth below the need, on empty and fully populated states, judged on the full snapshot by the unfired rule; fired cases judged for confinement to the documented footprint.",
         "Trusted: footprint table harness/src/foot.rs (from the doc comments).",
         "exhaustive enumeration of operand-missing patterns with a whole-state frame oracle"),
 "C11": ("All code trees up to S points over the printable atom kinds, printed by the three printing routes and parsed back by the real parser.",
         "Trusted: structural comparison by the harness's own tree type.",
         "exhaustive small-scope enumeration of programs, round-trip oracle"),
 "C12": ("All RNG scripts with a bounded number of deviations (grid covering every outcome of every small gen_range) for every size / bound / instruction list / binding table / name probability; each generated item checked for size, leaf kinds, executability and print stability; reachability of all kinds.",
         "Trusted: the scripted-RNG hook (harness answers replace thread_rng draws; rand's own sampling code stays in the loop); the grid self-check.",
         "deviation-bounded exhaustive enumeration of scripted RNG answers (CHESS-style iterative bounding over environment answers)"),
 "C13": ("All RNG scripts with a bounded number of deviations for every parameter tuple of the value generators and the *.RAND instructions; bounds, lengths, reachability of every position/value, invalid parameters, no hang (draw horizon).",
         "Trusted: the scripted-RNG hook; the draw horizon as hang detector.",
         "deviation-bounded exhaustive enumeration of scripted RNG answers"),
 "C14": ("Exhaustive differentials over the instruction sweep (forward vs reverse order, checked vs release), over all ordered program pairs (history independence, fresh vs shared InstructionSet), CLI vs library on the corpus, and loom exploration of all interleavings of concurrent node creation through the real interpreter.",
         "Trusted: loom's exploration of the one shared atomic (inventory-checked); the corpus.",
         "loom (exhaustive interleavings of the real code) + exhaustive order/pair/profile/CLI differentials"),
 "C15": ("Every INTEGER-operand instruction x operand position x magnitude ladder executed as one real step under an allocation budget enforced by a counting global allocator (deterministic counters decide, aborts are attributed by breadcrumb); every small structure-doubling program stepped under the default limits with per-step monitors.",
         "Trusted: the counting allocator (harness/src/budget.rs), the thresholds.",
         "exhaustive enumeration (instruction x operand position x magnitude ladder; all small grower programs) with a resource-invariant oracle on deterministic allocation counters"),
 "C16": ("Every reachable PushStack content up to the size bound (BFS to fixpoint) x every public operation x every position in [0,len+2] executed on the real container and compared with a plain Vec; complete for the bound.",
         "Trusted: the Vec reference (harness/src/c16.rs); PushStack has no hidden state besides its elements.",
         "explicit-state BFS to fixpoint over the real container against a reference model"),
 "C17": ("BFS to a fixpoint on the full internal state of the real PushBuffer for each capacity and kind against a bounded VecDeque, plus depth-bounded BFS of INPUT/OUTPUT instruction histories through the real interpreter step.",
         "Trusted: the VecDeque reference and the io rows of harness/src/refmodel.rs.",
         "explicit-state BFS (fixpoint on internal state; depth-bounded for instruction histories) against a reference model"),
 "C18": ("Explicit-state BFS over Graph API histories and over GRAPH.* instruction histories on the real code, every transition compared with a set-based model plus structural invariants, snapshot independence and diff emptiness.",
         "Trusted: model_apply / check_graph in harness/src/c18.rs and the graph rows of refmodel.rs.",
         "explicit-state BFS with canonical-state dedup over the real transition function against a set-based reference model"),
 "C19": ("Every stack-id vector up to length K x populated states x positions: LIST.* by name against the reference rows, with conservation and LIST.ADD/LIST.GET/execute round-trip oracles.",
         "Trusted: LIST rows of refmodel.rs.",
         "exhaustive enumeration of id vectors / positions against a reference model + conservation invariant"),
 "C20": ("Every (ntotal, ndim, centre, radius) of the grids against brute-force integer geometry and the structural laws; LIST.NEIGHBOR* by name over clamping classes.",
         "Trusted: neighbors_ref / edge_len in refmodel.rs (exact integer arithmetic).",
         "exhaustive enumeration over parameter grids against a brute-force reference + algebraic laws"),
}

hooks = dict(
    guard="cargo feature `verif` (plus rustc cfg `pushr_verif_loom` for the loom build of the node counter)",
    enable="harness/Cargo.toml depends on pushr = { path = \"/repo\", features = [\"verif\"] }; loomcheck builds with RUSTFLAGS=--cfg pushr_verif_loom",
    baseline_off_cmd="cd /repo && cargo test --workspace --no-fail-fast --offline",
    source_commits=["41bfcaa"], add_only=True)

checks = []
for pid in sorted(CHECKS):
    text, note, tech = TEXT[pid]
    checks.append(dict(property_id=pid, quick_cmd="./check %s --tier quick" % pid, thorough_cmd="./check %s --tier thorough" % pid,
        evidence_file="/verif/evidence/%s.json" % pid, replay_cmd_template="./check %s --replay {path}" % pid, engine="mcw",
        level_claimed=dict(category="model_checking", text=text, design_ref="DESIGN.md §5 " + pid), level_note=note, technique=tech))
na = [dict(property_id=p['id'], reason="check not built yet in this revision of /verif (planned, see DESIGN.md §5); nothing is claimed for it") for p in props if p['id'] not in CHECKS]
m = dict(version=1, setup_cmd="./check --build", hooks=hooks,
    engines=[dict(name="mcw", path="/verif/harness", serves_properties=sorted(CHECKS), kind_free_text="hand-rolled bounded-exhaustive explorer (enumeration, explicit-state BFS with canonical-state dedup, deviation-bounded DFS over scripted RNG/clock) driving the real pushr code against an independent reference model; python supervisor ./check")],
    checks=checks, not_applicable=na, notes="Known findings: /verif/known_findings.json. Replays: /verif/replays/<id>/ (git-ignored, rewritten by the checks).")
json.dump(m, open('/verif/MANIFEST.json', 'w'), indent=1)
print("MANIFEST: %d checks, %d not_applicable" % (len(checks), len(na)))
