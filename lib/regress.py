#!/usr/bin/env python3
"""Re-run every recorded seeded change against the CURRENT checks: apply seeded/<name>/patch.diff to /repo, run the
checks listed in its meta.json (detected_by; first one that reports a VIOLATION is enough), undo. Writes
seeded/REGRESSION.txt. Usage: lib/regress.py [name-prefix ...]   (serial: nothing else may use /repo meanwhile)"""
import glob, json, os, subprocess, sys, time
ROOT = os.path.dirname(os.path.dirname(os.path.abspath(__file__)))
sel = sys.argv[1:]
rows = []
OUT = open(os.path.join(ROOT, "seeded", "REGRESSION.txt"), "a" if sel else "w")
def sh(*a, **k):
    return subprocess.run(a, stdout=subprocess.PIPE, stderr=subprocess.STDOUT, text=True, **k)
OUT.write("# %s  checks at %s\n" % (time.strftime("%Y-%m-%d %H:%M"), sh("git", "-C", ROOT, "rev-parse", "--short", "HEAD").stdout.strip())); OUT.flush()
if sh("git", "-C", "/repo", "status", "--porcelain").stdout.strip():
    sys.exit("/repo is dirty, refusing")
for d in sorted(glob.glob(os.path.join(ROOT, "seeded", "C*"))):
    name = os.path.basename(d)
    if sel and not any(name.startswith(s) for s in sel):
        continue
    meta = json.load(open(os.path.join(d, "meta.json")))
    checks = meta.get("detected_by") or [name[:3]]
    patch = os.path.join(d, "patch.diff")
    if sh("git", "-C", "/repo", "apply", "--check", patch).returncode != 0:
        rows.append((name, "PATCH-DOES-NOT-APPLY", "", 0)); OUT.write("%-55s %-22s %-4s %4ds\n" % rows[-1]); OUT.flush(); print(rows[-1], flush=True); continue
    sh("git", "-C", "/repo", "apply", patch)
    t0 = time.time(); verdict = "MISSED"; by = ""
    try:
        for c in checks:
            r = sh(os.path.join(ROOT, "check"), c, "--tier", "quick", cwd=ROOT)
            if r.returncode == 1 and "VIOLATION property=" in r.stdout:
                verdict = "detected"; by = c; break
            if r.returncode not in (0, 1):
                verdict = "MACHINERY(rc=%d)" % r.returncode; by = c
    finally:
        sh("git", "-C", "/repo", "checkout", "--", ".")
    rows.append((name, verdict, by, round(time.time() - t0)))
    OUT.write("%-55s %-22s %-4s %4ds\n" % rows[-1]); OUT.flush()
    print(rows[-1], flush=True)
bad = [r for r in rows if r[1] != "detected"]
print("%d seeds, %d not detected" % (len(rows), len(bad)))
