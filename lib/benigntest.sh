#!/bin/bash
# usage: benigntest.sh <name> <srcdir-with-OUT> ["checks"]
# Applies a behaviour-preserving change to /repo, runs the named (default: all) quick checks, undoes it.
# Any VIOLATION / non-zero exit is a FALSE ALARM candidate (or the change is not preserving after all): triage by hand.
set -u
NAME=$1; SRC=$2; CHECKS=${3:-"C01 C02 C03 C04 C05 C06 C07 C08 C09 C10 C11 C12 C13 C14 C15 C16 C17 C18 C19 C20"}
DEST=/verif/seeded-benign/$NAME
mkdir -p $DEST
cp $SRC/OUT/patch.diff $SRC/OUT/meta.json $DEST/ 2>/dev/null
cp $SRC/OUT/demo.rs $DEST/demo.rs 2>/dev/null
cd /verif
if ! git -C /repo diff --quiet; then echo "/repo is dirty, refusing"; exit 4; fi
if ! git -C /repo apply --check $DEST/patch.diff 2>/dev/null; then echo "PATCH DOES NOT APPLY"; exit 3; fi
git -C /repo apply $DEST/patch.diff
# the upstream suite must pass with the change
( cd /repo && CARGO_TARGET_DIR=/tmp/benign-target cargo test --offline --lib 2>&1 | grep -E '^test result' ) | tee $DEST/result.txt
for c in $CHECKS; do
  ./check $c --tier quick > $DEST/check-$c.out 2>&1; rc=$?
  echo "$c exit $rc $(grep -E '^VIOLATION|^MACHINERY' $DEST/check-$c.out | head -2 | tr '\n' ' ' | cut -c1-200)" | tee -a $DEST/result.txt
done
git -C /repo checkout -- .
git -C /repo status --short | head -3
