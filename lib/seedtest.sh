#!/bin/bash
# usage: seedtest.sh <seed-dir-name> <srcdir-with-OUT> "<checks to run, e.g. C04 C01>"
# PHASE=confirm: only the scratch-worktree confirmation; PHASE=checks: only the check runs (appended to confirm.txt).
# RELEASE_DEMO=1: also run the demo under --release (round 10: changes that misbehave only in the optimised build).
# Confirms a seeded change in a fresh scratch worktree of /repo HEAD (compiles, upstream suite passes,
# demo fails with / passes without), then applies it to /repo, runs the named checks, and undoes it.
set -u
NAME=$1; SRC=$2; CHECKS=$3
DEST=/verif/seeded/$NAME
mkdir -p $DEST
cp $SRC/OUT/patch.diff $SRC/OUT/meta.json $DEST/ 2>/dev/null
cp $SRC/OUT/demo.rs $DEST/demo.rs 2>/dev/null
R=$DEST/confirm.txt
if [ "${PHASE:-both}" != "checks" ]; then
WT=/tmp/seedchk-$NAME
export CARGO_TARGET_DIR=/tmp/seedchk-target
git -C /repo worktree remove --force $WT 2>/dev/null
git -C /repo worktree add -q --detach $WT HEAD || exit 2
cd $WT
: > $R
if ! git apply --check $DEST/patch.diff 2>>$R; then echo "PATCH DOES NOT APPLY to current /repo HEAD" | tee -a $R; git -C /repo worktree remove --force $WT; exit 3; fi
mkdir -p tests; cp $DEST/demo.rs tests/demo.rs
echo "== demo WITHOUT the change" >> $R
cargo test --offline --test demo 2>&1 | grep -E '^test result|error' | tee -a $R
if [ -n "${RELEASE_DEMO:-}" ]; then echo "== demo WITHOUT the change (--release)" >> $R; cargo test --offline --release --test demo 2>&1 | grep -E '^test result|error' | tee -a $R; fi
git apply $DEST/patch.diff
echo "== build with --features verif" >> $R
cargo build --offline --features verif 2>&1 | grep -E '^error|Finished' | tee -a $R
echo "== upstream suite WITH the change" >> $R
cargo test --offline --lib 2>&1 | grep -E '^test result' | tee -a $R
echo "== demo WITH the change" >> $R
cargo test --offline --test demo 2>&1 | grep -E '^test result|error' | tee -a $R
if [ -n "${RELEASE_DEMO:-}" ]; then echo "== demo WITH the change (--release)" >> $R; cargo test --offline --release --test demo 2>&1 | grep -E '^test result|error' | tee -a $R; fi
cd /verif
git -C /repo worktree remove --force $WT
fi
# run the checks against /repo with the change applied
if [ -z "$CHECKS" ] || [ "${PHASE:-both}" = "confirm" ]; then exit 0; fi
unset CARGO_TARGET_DIR
if ! git -C /repo diff --quiet; then echo "/repo is dirty, refusing"; exit 4; fi
git -C /repo apply $DEST/patch.diff
for c in $CHECKS; do
  echo "== ./check $c --tier quick (change applied)" >> $R
  ./check $c --tier quick > $DEST/check-$c.out 2>&1; echo "exit $?" >> $DEST/check-$c.out
  grep -E '^VIOLATION|^exit|^MACHINERY|^\[C' $DEST/check-$c.out | head -8 | tee -a $R
done
git -C /repo checkout -- .
git -C /repo status --short | head -3
